#!/venv/bin/python
"""
Sensitivity self-test: apply each catalogued mutant to a scratch copy of /repo/src/cutadapt
(outside /repo and /verif, removed afterwards) and run the responsible check against it.

  tools/mutants.py [--only id,id] [--props C06,C12] [--cases N]
"""
import argparse
import os
import shutil
import subprocess
import sys
import tempfile

VERIF = os.path.dirname(os.path.dirname(os.path.abspath(__file__)))
sys.path.insert(0, VERIF)
from mutants.catalogue import MUTANTS  # noqa: E402


def main():
    ap = argparse.ArgumentParser()
    ap.add_argument("--only")
    ap.add_argument("--props")
    ap.add_argument("--cases", type=int, default=0)
    args = ap.parse_args()
    only = set(args.only.split(",")) if args.only else None
    props = set(args.props.split(",")) if args.props else None
    have = {f[:-3].upper() for f in os.listdir(os.path.join(VERIF, "props")) if f.startswith("c") and f[1:3].isdigit()}
    results = []
    for mid, targets, fname, old, new in MUTANTS:
        if only and mid not in only:
            continue
        scratch = tempfile.mkdtemp(prefix="cutadapt-mutant-", dir="/dev/shm")
        try:
            src = os.path.join(scratch, "cutadapt")
            shutil.copytree("/repo/src/cutadapt", src, ignore=shutil.ignore_patterns("__pycache__", "*.so", "*.c"))
            p = os.path.join(src, fname)
            text = open(p).read()
            if text.count(old) != 1:
                results.append((mid, "-", f"PATTERN-NOT-UNIQUE ({text.count(old)})"))
                continue
            open(p, "w").write(text.replace(old, new))
            for prop in targets:
                if prop not in have or (props and prop not in props):
                    continue
                cmd = [os.path.join(VERIF, "check"), prop]
                if args.cases:
                    cmd += ["--cases", str(args.cases)]
                env = {**os.environ, "VERIF_SRC": src, "VERIF_SHRINK_S": "5", "VERIF_EVIDENCE_DIR": scratch}
                r = subprocess.run(cmd, stdout=subprocess.PIPE, stderr=subprocess.STDOUT, text=True, env=env, cwd=VERIF)
                viol = [ln for ln in r.stdout.splitlines() if ln.startswith("VIOLATION")]
                detail = [ln.strip() for ln in r.stdout.splitlines() if ln.startswith("  clause=")]
                status = "CAUGHT" if r.returncode == 1 and viol else f"MISSED (exit {r.returncode})"
                results.append((mid, prop, status + (" " + detail[0][:140] if detail else "")))
                print(f"{mid:40s} {prop} {status} {(detail[0][:160] if detail else '')}", flush=True)
                if r.returncode == 2:
                    print(r.stdout[-1500:])
        finally:
            shutil.rmtree(scratch, ignore_errors=True)
    missed = [r for r in results if not r[2].startswith("CAUGHT")]
    print(f"\n{len(results) - len(missed)} caught, {len(missed)} not caught")
    for r in missed:
        print("  ", r)
    # replay files written while testing mutants are of no further use
    for f in os.listdir(os.path.join(VERIF, "replays")):
        if f.endswith(".json"):
            os.unlink(os.path.join(VERIF, "replays", f))
    return 0


if __name__ == "__main__":
    sys.exit(main())
