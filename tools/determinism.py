#!/venv/bin/python
"""
Determinism self-test (DESIGN §6.1).

  tools/determinism.py C06 --n 500          run everything and compare
  tools/determinism.py C06 --emit --n 500   print one digest line per case (used internally)

Each case is evaluated twice in the same process and once more in fresh interpreters under
different PYTHONHASHSEED values and worker counts; event-log digests, SimFS content digests
and verdicts must be identical.
"""
import argparse
import hashlib
import importlib
import json
import os
import subprocess
import sys

VERIF = os.path.dirname(os.path.dirname(os.path.abspath(__file__)))
sys.path.insert(0, VERIF)


def emit(prop, seed, lo, hi, twice):
    from sim import build

    build.activate(quiet=True)
    from sim import engine, harness

    harness.install()
    mod = importlib.import_module(f"props.{prop.lower()}")
    for index in range(lo, hi):
        lines = []
        for rep in range(2 if twice else 1):
            rng = engine.case_rng(seed, mod.ID, index)
            try:
                case = (mod.generate_indexed(seed, index, "quick", rng) if hasattr(mod, "generate_indexed") else mod.generate(rng, "quick"))
            except engine.Discard as d:
                lines.append(f"gen-discard:{d.reason}")
                continue
            ctx = engine.Ctx(case)
            try:
                viols = mod.evaluate(case, ctx)
                disc = None
            except engine.Discard as d:
                viols, disc = [], d.reason
            h = hashlib.sha1()
            h.update(json.dumps(case, sort_keys=True).encode())
            for name in sorted(ctx.results):
                r = ctx.results[name]
                h.update(name.encode())
                h.update(r.log_digest.encode())
                h.update(harness.content_digest(r).encode())
                h.update(repr(r.choices).encode())
            h.update(repr(sorted((v["clause"], v["msg"]) for v in viols)).encode())
            h.update(repr(disc).encode())
            lines.append(h.hexdigest())
        if twice and lines[0] != lines[1]:
            print(f"{index} SAME-PROCESS-DIVERGENCE {lines}")
        else:
            print(f"{index} {lines[0]}")
    sys.stdout.flush()


def main():
    ap = argparse.ArgumentParser()
    ap.add_argument("prop")
    ap.add_argument("--n", type=int, default=500)
    ap.add_argument("--seed", type=int, default=int(os.environ.get("VERIF_SEED", "0")))
    ap.add_argument("--emit", action="store_true")
    ap.add_argument("--lo", type=int, default=0)
    ap.add_argument("--twice", action="store_true")
    args = ap.parse_args()
    if args.emit:
        emit(args.prop, args.seed, args.lo, args.lo + args.n, args.twice)
        return 0
    # driver: three configurations, different hash seeds and different process counts
    configs = [("0", 8, True), ("1", 5, False), ("12345", 13, False)]
    outputs = []
    for hs, nproc, twice in configs:
        per = (args.n + nproc - 1) // nproc
        procs = []
        for k in range(nproc):
            lo = k * per
            n = max(0, min(per, args.n - lo))
            if n == 0:
                continue
            cmd = [sys.executable, __file__, args.prop, "--emit", "--lo", str(lo), "--n", str(n), "--seed", str(args.seed)]
            if twice:
                cmd.append("--twice")
            procs.append(subprocess.Popen(cmd, stdout=subprocess.PIPE, text=True, env={**os.environ, "PYTHONHASHSEED": hs}))
        lines = {}
        for p in procs:
            out, _ = p.communicate()
            if p.returncode != 0:
                print("emit process failed", p.returncode)
                return 2
            for ln in out.splitlines():
                if ln and ln[0].isdigit():
                    i, rest = ln.split(" ", 1)
                    lines[int(i)] = rest
        outputs.append(lines)
    bad = 0
    for i in range(args.n):
        vals = [o.get(i) for o in outputs]
        if len(set(vals)) != 1 or "DIVERGENCE" in str(vals[0]) or vals[0] is None:
            bad += 1
            if bad <= 10:
                print("DIVERGENCE case", i, vals)
    print(f"determinism {args.prop}: {args.n} cases x (2 same-process + 2 fresh interpreters, hash seeds 0/1/12345, 8/5/13 processes): {bad} divergences")
    return 1 if bad else 0


if __name__ == "__main__":
    sys.exit(main())
