#!/venv/bin/python
"""
Seeded defects (written by independent sub-agents that saw only the property text).

  tools/seeded.py ingest <worktree> <id>     copy patch/demo/meta into seeded/<id>/ and confirm them
                                              in a fresh scratch worktree (tests pass, demo fails with
                                              the change and passes without it)
  tools/seeded.py run <id> [PROP ...]        apply the patch in a scratch worktree of /repo HEAD and run
                                              the quick checks against it (VERIF_SRC); removed afterwards
"""
import json
import os
import shutil
import subprocess
import sys
import tempfile

VERIF = os.path.dirname(os.path.dirname(os.path.abspath(__file__)))
SEEDED = os.path.join(VERIF, "seeded")
ENVP = {**os.environ, "PATH": "/venv/bin:" + os.environ.get("PATH", "")}


def sh(cmd, **kw):
    return subprocess.run(cmd, shell=isinstance(cmd, str), stdout=subprocess.PIPE, stderr=subprocess.STDOUT, text=True, **kw)


def ingest(wt, sid):
    d = os.path.join(SEEDED, sid)
    os.makedirs(d, exist_ok=True)
    diff = sh(["git", "-C", wt, "diff"]).stdout
    if not diff.strip():
        print("no diff in", wt)
        return 1
    open(os.path.join(d, "patch.diff"), "w").write(diff)
    shutil.copy(os.path.join(wt, "demo.py"), os.path.join(d, "demo.py"))
    meta = json.load(open(os.path.join(wt, "meta.json")))
    # confirm in a fresh worktree
    scratch = tempfile.mkdtemp(prefix="vt-", dir="/tmp")
    os.rmdir(scratch)
    try:
        sh(["git", "-C", "/repo", "worktree", "add", "-q", "--detach", scratch, "HEAD"])
        for f in os.listdir("/repo/src/cutadapt"):
            if f.endswith(".so") or f == "_version.py":
                shutil.copy(os.path.join("/repo/src/cutadapt", f), os.path.join(scratch, "src/cutadapt", f))
        shutil.copy(os.path.join(d, "demo.py"), os.path.join(scratch, "demo.py"))
        demo_src = open(os.path.join(scratch, "demo.py")).read()
        wtname = os.path.basename(wt.rstrip("/"))
        if wt in demo_src:
            open(os.path.join(scratch, "demo.py"), "w").write(demo_src.replace(wt, scratch))
        env = {**ENVP, "PYTHONPATH": os.path.join(scratch, "src")}
        clean = sh([sys.executable, "demo.py"], cwd=scratch, env=env)
        ap = sh(["git", "-C", scratch, "apply", os.path.join(d, "patch.diff")])
        if ap.returncode:
            print("patch does not apply:", ap.stdout)
            return 1
        if any(l.endswith(".pyx") for l in diff.splitlines() if l.startswith("+++ ")):
            for l in diff.splitlines():
                if l.startswith("+++ ") and l.endswith(".pyx"):
                    sh([sys.executable, "-m", "Cython.Build.Cythonize", "-i", "-3", "-q", l[6:]], cwd=scratch, env=env)
        tests = sh([sys.executable, "-m", "pytest", "-q", "-p", "no:cacheprovider", "-x"], cwd=scratch, env=env)
        broken = sh([sys.executable, "demo.py"], cwd=scratch, env=env)
        ok_tests = tests.returncode == 0
        ok_demo = clean.returncode == 0 and broken.returncode != 0
        meta["confirmed"] = {
            "tests_pass_with_change": ok_tests,
            "tests_tail": tests.stdout.strip().splitlines()[-1] if tests.stdout.strip() else "",
            "demo_exit_without_change": clean.returncode,
            "demo_exit_with_change": broken.returncode,
            "how": "fresh git worktree of /repo HEAD under /tmp; demo.py run before and after `git apply patch.diff`; full pytest suite run with the change",
        }
        json.dump(meta, open(os.path.join(d, "meta.json"), "w"), indent=1)
        print(f"{sid}: tests {'pass' if ok_tests else 'FAIL'} ({meta['confirmed']['tests_tail']}); demo clean exit {clean.returncode}, with change exit {broken.returncode}")
        if not ok_demo:
            print("--- demo without change:\n", clean.stdout[-800:], "\n--- with change:\n", broken.stdout[-800:])
        return 0 if (ok_tests and ok_demo) else 1
    finally:
        sh(["git", "-C", "/repo", "worktree", "remove", "--force", scratch])
        shutil.rmtree(scratch, ignore_errors=True)


def run(sid, props):
    """Run the quick checks against the seeded change, applied in a scratch worktree (never in
    /repo itself: background runs build from /repo and must not see a half-applied patch)."""
    d = os.path.join(SEEDED, sid)
    meta = json.load(open(os.path.join(d, "meta.json")))
    props = props or [meta["property"]]
    scratch = tempfile.mkdtemp(prefix="seedrun-", dir="/tmp")
    os.rmdir(scratch)
    results = {}
    try:
        sh(["git", "-C", "/repo", "worktree", "add", "-q", "--detach", scratch, "HEAD"])
        ap = sh(["git", "-C", scratch, "apply", os.path.join(d, "patch.diff")])
        if ap.returncode:
            print("patch does not apply:", ap.stdout)
            return 2
        for p in props:
            r = sh([os.path.join(VERIF, "check"), p], cwd=VERIF,
                   env={**os.environ, "VERIF_SRC": os.path.join(scratch, "src", "cutadapt"),
                        "VERIF_EVIDENCE_DIR": tempfile.gettempdir(), "VERIF_SHRINK_S": "20"})
            viol = [ln for ln in r.stdout.splitlines() if ln.startswith("VIOLATION") or ln.startswith("  clause=")]
            results[p] = {"exit": r.returncode, "lines": [v[:300] for v in viol[:4]]}
            print(f"{sid} {p}: exit {r.returncode}", *[v[:260] for v in viol[:4]], sep="\n    ")
            if r.returncode == 2:
                print(r.stdout[-1500:])
    finally:
        sh(["git", "-C", "/repo", "worktree", "remove", "--force", scratch])
        shutil.rmtree(scratch, ignore_errors=True)
        for f in os.listdir(os.path.join(VERIF, "replays")):
            if f.endswith(".json"):
                os.unlink(os.path.join(VERIF, "replays", f))
    meta.setdefault("checks_run", {}).update(results)
    json.dump(meta, open(os.path.join(d, "meta.json"), "w"), indent=1)
    return 0


if __name__ == "__main__":
    if sys.argv[1] == "ingest":
        sys.exit(ingest(sys.argv[2], sys.argv[3]))
    sys.exit(run(sys.argv[2], sys.argv[3:]))
