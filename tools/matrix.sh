#!/bin/sh
# Every stored seeded change against the quick tier of its own check (scratch worktree + VERIF_SRC,
# /repo is never touched). One line per seed: "<id> <check>: exit 1" means caught.
cd "$(dirname "$0")/.."
for d in seeded/*/; do
    id=$(basename "$d")
    /venv/bin/python tools/seeded.py run "$id" 2>&1 | grep -E "^[A-Za-z0-9_.-]+ C[0-9]+: exit"
done
echo MATRIX-DONE
