#!/venv/bin/python
"""Regenerates MANIFEST.json from the table below (keeps it valid and in one place)."""
import json

NA = {
    "C01": "pure function of (adapter, parameters, read): no schedule, clock, fault or I/O in it; deterministic simulation has nothing to decide",
    "C02": "pure function of (adapter, parameters, read), same function as C01",
    "C03": "per-read pure function of (read, options); its only process-level aspect (same bytes with N cores) is decided by C06",
    "C07": "pure function of (adapter, read); the out-of-bounds read is a memory-safety matter for sanitizers, not for a scheduler",
    "C08": "pure function of (adapter set, read)",
    "C09": "pure per-read function (best match, rounds, linked adapters)",
    "C10": "pure function from the option set to a per-read composition of modifiers",
    "C11": "pure per-read predicates evaluated in a fixed order; the stream-level clause 'one destination per read' is clause 1 of the C04 check",
    "C13": "pure function of a quality string and two integers",
    "C14": "pure functions of a sequence / quality string",
    "C16": "pure per-read (per-pair) decision",
    "C17": "content of an info-file row is a pure function of the read and its matches; the stream-level part (rows of all workers merged completely and in input order) is covered by C06's byte comparison of the info/rest/wildcard files",
    "C18": "pure parser of adapter specifications",
}

TECH = "deterministic simulation with fault injection: real cutadapt.cli.main under a seeded scheduler (simulated processes with per-process interpreter images under fork or spawn, pipes, queue, file seam, external-compressor pipes, EMFILE on open, terminal or not), seeded search over schedules/configurations/faults, history oracles, replay+shrink"

CHECKS = {
    "C06": dict(
        level="exploration",
        text="Seeded search over schedules: each generated case (records, layout, containers, command line) is executed by the real cutadapt.cli.main once with the serial runner and once with 2-5 simulated worker processes under a seeded scheduling policy, pipe capacity, feeder mode and buffer size; every output file (decompressed), stdout, the text report and the JSON report must be identical, and the run must neither deadlock nor leave children alive. The simulated machine varies per case: fork or spawn (per-process interpreter state and descriptors), input from files, standard input or /dev/fd pipes (also delivered in short pieces under the default buffer size with one worker descheduled for long), relative paths, pre-existing outputs, external compressor pipes, EMFILE, a terminal on stderr; inputs up to 104 000 reads, BAM, non-ASCII adapter names. 24 (quick) / 200 (thorough) cases are also run with the real program under fork, spawn and forkserver and compared with the simulation. Sampling, not enumeration: a clean batch is evidence, not proof.",
        design="5/C06",
        note="Trusted: the simulation kernel (threads parked at IPC operations, pickled process state, per-process images of cutadapt's module/class state under a per-case fork or spawn start method, message-granular pipes), the file seam below the real xopen with in-process codecs (external compressor processes modelled as pipes whose close waits for forked holders; one open() per case may fail with EMFILE; stderr is a terminal in 15 % of cases), the stdlib decompressors used by the oracle.",
    ),
    "C04": dict(
        level="exploration",
        text="Exactly-once / conservation checked over the recorded history of each simulated run: seeded cases weighted towards filters, redirect files, discard options and demultiplexing are executed by the real cutadapt.cli.main with the serial runner and with 2-5 simulated workers under a seeded schedule; all closed output files are read back (independent strict parsers, stdlib codecs) and related to each other and to the JSON, text and minimal reports (ids unique across files, counts and base pairs equal file contents, input = output + reported categories, ids in no file = categories without redirect file; 30 % of the cases are judged from the printed report instead of --json); every 6th small case re-runs each record alone and compares the sums; quality-trimmed and poly-A-trimmed base counts are checked against the bases actually removed in isolated runs of that modifier. Inputs include unaligned BAM, 70 000-104 000-read files, redirect files sent to /dev/null; faults: EMFILE on open (a run that gives up is a violation) and a full disk behind one output (ENOSPC at flush/close: a run that reports it is discarded, one that exits 0 is judged). Sampling, not enumeration.",
        design="5/C04",
        note="Trusted: simulation kernel/file seam as for C06; ids stay recoverable from the names written; report parsers in props/c04.py.",
    ),
    "C05": dict(
        level="exploration",
        text="Seeded paired-end cases (two files/interleaved, R1/R2 of very different lengths so chunk limits differ, one-sided adapters, every --pair-filter, LEN/LEN:LEN2/LEN:/:LEN2, redirect pairs, --pair-adapters, demultiplexing) run serially and with 2-5 simulated workers under a seeded schedule plus a filter-free shadow run; oracle over the files: R1/R2 in lock step with equal ids and in input order, each pair in exactly one destination, destination of every pair equal to a small reference model of the documented filter chain evaluated on the shadow records, --pair-adapters same-rank rule (dual-index layouts, unmatched pairs byte-identical also with --action=lowercase), redirect files of which one or both are /dev/null, an empty adapter file on the adapter-less side, and consistency of the match witness (a mate with a recorded match must differ from its input, one without must equal it).",
        design="5/C05",
        note="Trusted: simulation kernel/SimFS as for C06; the reference model (props/model.py) transcribes the documented criteria; match status read from cutadapt's own --rename stamp; float criteria within 1e-4 of the threshold are not judged.",
    ),
    "C15": dict(
        level="exploration",
        text="Seeded demultiplexing cases ({name} and {name1}/{name2}, plain and compressed templates, decoy adapters that never match, --discard-untrimmed/--untrimmed-output, --times 1-3, filters, empty inputs) run serially, with 2-5 simulated workers under a seeded schedule and once with a plain -o; oracle: created file set equals the documented set (empty files included, valid containers), every record lies in the file selected by its '-y dm={name}' stamp(s), multiset over all demultiplexed files equals the plain run, multi-core files equal single-core files. Adapter sets include same-named adapters (with large inputs), names differing only in case, an adapter named 'unknown', up to 330 barcodes; templates with the placeholder first (relative paths), twice, or next to literal braces; the descriptor limit is reached once or twice while the files are opened (EMFILE).",
        design="5/C15",
        note="Trusted: simulation kernel/SimFS as for C06; the stamp written by cutadapt's PrefixSuffixAdder as witness of the last match.",
    ),
    "C19": dict(
        level="exploration",
        text="Each seeded case is executed as a reference variant (plain, two files, one core) and 4-7 variants differing only in input container (gz, multi-member gz, bz2, xz, zst), input layout, FASTA vs FASTQ input, output containers/extensions/layout, stdout with/without --fasta and 1 vs 2-5 simulated workers (seeded schedule, buffer size); oracle: same records in every destination (names+sequences when a FASTA side is involved, else also qualities) and the written format equals a transcription of the documented name rule (recognised, unrecognised, near-miss and extension-only names); outputs may exist already (re-run), stderr may be a terminal, a worker may get a > 256 KiB chunk and then another.",
        design="5/C19",
        note="Trusted: simulation kernel/file seam as for C06 (real xopen detection and in-process codecs run; external compressor programs are modelled as pipes, their codecs are the in-process ones); stdlib codecs + backports.zstd for reading outputs.",
    ),
    "C20": dict(
        level="exploration",
        text="Seeded cases with all adapter types (incl. anywhere, linked), --times 1-3, all actions, --revcomp (single-end), --pair-adapters, always --info-file and --json, run serially and with 2-5 simulated workers (each worker tallies its chunks, main merges) under a seeded schedule; the info-file rows of the same run are tallied per adapter/end (matches, removed length x errors, adjacent bases, 5'/3' split, reverse-complement matches) and must equal the JSON report (adapters_read2 via a mirrored run), and so must the per-adapter sections of the text report (trimmed counts, histograms, max.err, bases preceding, allowed errors); error_lengths must equal int(L*rate) for every L (adapters up to 110 nt with rates on floating-point edges; spellings with I, U, lower case). Same-named adapters are told apart by attributing each info-file row to the adapter that can have produced it; R1 and R2 may get identical adapter lists; 7 % of the cases are paired-end --revcomp runs judged from the read names (' rc' marker and a '-y a={name}' stamp) instead of the info file.",
        design="5/C20",
        note="Trusted: simulation kernel/SimFS as for C06; the info file as independent record of the applied matches (it describes one read only with paired --revcomp, where the read names are used instead).",
    ),
    "C12": dict(
        level="fault_enumeration",
        text="Storage faults are enumerated, schedules sampled: for seeded base inputs (FASTQ single / two-file / interleaved, plain, gzip, multi-member gzip; sampled part also bzip2/xz) EVERY truncation offset of every input file and every single-record corruption kind at EVERY record index is applied to the stored bytes, and each faulted input is run with the serial runner and with 2-4 simulated workers under a seeded schedule; plus sampled two-fault sequences, gzip bit flips, truncation of the data before compression (intact container), unaligned BAM input (thorough: every offset of the BAM stream of a base), input through standard input or /dev/fd pipes, and chunk-boundary-biased buffer sizes. The program is entered through main_cli, so the exit status is the process's. A hang is decided exactly (main unfinished and no task enabled = DEADLOCK). Oracle: malformed (by an independent strict reader / zlib) => non-zero exit and an error message; exit 0 => input well-formed and every record accounted for; outputs after an error hold only complete records, in input order, that are a prefix of the fault-free run.",
        design="5/C12",
        note="Trusted: simulation kernel and SimFS as for C06; the strict FASTQ reader and stdlib zlib as independent judges of well-formedness; inputs classified 'unspecified' (FASTA bodies, files turned into FASTA by the corruption) are checked for hangs only. Mate names are compared by dnaio's rule (a final 1/2/3 is ignored). No EIO/signal/worker-kill faults: the property does not speak about them.",
    ),
}


def main():
    checks = []
    for pid, c in sorted(CHECKS.items()):
        checks.append({
            "property_id": pid,
            "quick_cmd": f"./check {pid} --tier quick",
            "thorough_cmd": f"./check {pid} --tier thorough",
            "evidence_file": f"/verif/evidence/{pid}.json",
            "replay_cmd_template": f"./check {pid} --replay {{path}}",
            "engine": "dst",
            "level_claimed": {"category": c["level"], "text": c["text"], "design_ref": c["design"]},
            "level_note": c["note"],
            "technique": TECH,
        })
    m = {
        "version": 1,
        "setup_cmd": "/venv/bin/python -m sim.build",
        "hooks": {
            "guard": "CUTADAPT_VERIF",
            "enable": "no hooks were added to /repo: all seams (multiprocessing context, xopen, open, sys.std*, time) are replaced from outside by /verif/sim/harness.py; the guard name is reserved but unused",
            "baseline_off_cmd": "cd /repo && /venv/bin/python -m pytest -ra -q -p no:cacheprovider --timeout=900 --continue-on-collection-errors",
            "source_commits": [],
            "add_only": True,
        },
        "engines": [{
            "name": "dst",
            "path": "/verif/sim",
            "serves_properties": sorted(CHECKS),
            "kind_free_text": "deterministic simulator: seeded scheduler over parked threads (one per simulated OS process), simulated pipes/queue/wait/terminate, in-memory file system with storage faults, replay files with explicit schedules, delta-debugging shrinker",
        }],
        "checks": checks,
        "not_applicable": [{"property_id": k, "reason": v} for k, v in sorted(NA.items())],
        "notes": "Entry point ./check <id> [--tier quick|thorough] [--replay file]; honours VERIF_SEED and VERIF_TIER. Exit 0 held / 1 VIOLATION / 2 harness error. Genuine defects repaired in /repo as 'fix:' commits are listed in known_findings.json ('fixed'); unrepaired ones are 'known' entries there.",
    }
    with open("/verif/MANIFEST.json", "w") as f:
        json.dump(m, f, indent=1)
        f.write("\n")


if __name__ == "__main__":
    main()
