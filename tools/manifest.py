#!/venv/bin/python
"""Regenerates MANIFEST.json from the table below (keeps it valid and in one place)."""
import json

NA = {
    "C01": "pure function of (adapter, parameters, read): no schedule, clock, fault or I/O in it; deterministic simulation has nothing to decide",
    "C02": "pure function of (adapter, parameters, read), same function as C01",
    "C03": "per-read pure function of (read, options); its only process-level aspect (same bytes with N cores) is decided by C06",
    "C07": "pure function of (adapter, read); the out-of-bounds read is a memory-safety matter for sanitizers, not for a scheduler",
    "C08": "pure function of (adapter set, read)",
    "C09": "pure per-read function (best match, rounds, linked adapters)",
    "C10": "pure function from the option set to a per-read composition of modifiers",
    "C11": "pure per-read predicates evaluated in a fixed order; the stream-level clause 'one destination per read' is clause 1 of the C04 check",
    "C13": "pure function of a quality string and two integers",
    "C14": "pure functions of a sequence / quality string",
    "C16": "pure per-read (per-pair) decision",
    "C17": "content of an info-file row is a pure function of the read and its matches; the stream-level part (rows of all workers merged completely and in input order) is covered by C06's byte comparison of the info/rest/wildcard files",
    "C18": "pure parser of adapter specifications",
}

TECH = "deterministic simulation with fault injection: real cutadapt.cli.main under a seeded scheduler (simulated processes, pipes, queue, SimFS), seeded search over schedules/configurations, history oracles, replay+shrink"

CHECKS = {
    "C06": dict(
        level="exploration",
        text="Seeded search over schedules: each generated case (records, layout, containers, command line) is executed by the real cutadapt.cli.main once with the serial runner and once with 2-5 simulated worker processes under a seeded scheduling policy, pipe capacity, feeder mode and buffer size; every output file (decompressed), stdout, the text report and the JSON report must be identical, and the run must neither deadlock nor leave children alive. Sampling, not enumeration: a clean batch is evidence, not proof.",
        design="5/C06",
        note="Trusted: the simulation kernel (threads parked at IPC operations, pickled process state = spawn semantics, message-granular pipes), SimFS below the real xopen with in-process codecs, the stdlib decompressors used by the oracle.",
    ),
    "C12": dict(
        level="fault_enumeration",
        text="Storage faults are enumerated, schedules sampled: for seeded base inputs (FASTQ single / two-file / interleaved, plain, gzip, multi-member gzip) EVERY truncation offset of every input file and every single-record corruption kind at EVERY record index is applied to the SimFS bytes, and each faulted input is run with the serial runner and with 2-4 simulated workers under a seeded schedule; plus sampled two-fault sequences, gzip bit flips and chunk-boundary-biased buffer sizes. A hang is decided exactly (main unfinished and no task enabled = DEADLOCK). Oracle: malformed (by an independent strict reader / zlib) => non-zero exit and an error message; exit 0 => input well-formed and every record accounted for; outputs after an error hold only complete records, in input order, that are a prefix of the fault-free run.",
        design="5/C12",
        note="Trusted: simulation kernel and SimFS as for C06; the strict FASTQ reader and stdlib zlib as independent judges of well-formedness; inputs classified 'unspecified' (FASTA bodies, files turned into FASTA by the corruption) are checked for hangs only. No EIO/ENOSPC/signal/worker-kill faults: the property does not speak about them.",
    ),
}


def main():
    checks = []
    for pid, c in sorted(CHECKS.items()):
        checks.append({
            "property_id": pid,
            "quick_cmd": f"./check {pid} --tier quick",
            "thorough_cmd": f"./check {pid} --tier thorough",
            "evidence_file": f"/verif/evidence/{pid}.json",
            "replay_cmd_template": f"./check {pid} --replay {{path}}",
            "engine": "dst",
            "level_claimed": {"category": c["level"], "text": c["text"], "design_ref": c["design"]},
            "level_note": c["note"],
            "technique": TECH,
        })
    m = {
        "version": 1,
        "setup_cmd": "/venv/bin/python -m sim.build",
        "hooks": {
            "guard": "CUTADAPT_VERIF",
            "enable": "no hooks were added to /repo: all seams (multiprocessing context, xopen, open, sys.std*, time) are replaced from outside by /verif/sim/harness.py; the guard name is reserved but unused",
            "baseline_off_cmd": "cd /repo && /venv/bin/python -m pytest -ra -q -p no:cacheprovider --timeout=900 --continue-on-collection-errors",
            "source_commits": [],
            "add_only": True,
        },
        "engines": [{
            "name": "dst",
            "path": "/verif/sim",
            "serves_properties": sorted(CHECKS),
            "kind_free_text": "deterministic simulator: seeded scheduler over parked threads (one per simulated OS process), simulated pipes/queue/wait/terminate, in-memory file system with storage faults, replay files with explicit schedules, delta-debugging shrinker",
        }],
        "checks": checks,
        "not_applicable": [{"property_id": k, "reason": v} for k, v in sorted(NA.items())],
        "notes": "Entry point ./check <id> [--tier quick|thorough] [--replay file]; honours VERIF_SEED and VERIF_TIER. Exit 0 held / 1 VIOLATION / 2 harness error. Genuine defects repaired in /repo as 'fix:' commits are listed in known_findings.json ('fixed'); unrepaired ones are 'known' entries there.",
    }
    with open("/verif/MANIFEST.json", "w") as f:
        json.dump(m, f, indent=1)
        f.write("\n")


if __name__ == "__main__":
    main()
