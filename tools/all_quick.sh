#!/bin/sh
# Run every quick check on the current tree; print one line per check. Exit status = worst.
cd "$(dirname "$0")/.."
worst=0
for p in C04 C05 C06 C12 C15 C19 C20; do
  out=$(./check $p 2>&1); rc=$?
  echo "$out" | grep -v condarc | grep "VIOLATION\|clause=\|HARNESS" | cut -c1-300
  echo "$p exit $rc: $(echo "$out" | grep -v condarc | grep "quick:" | cut -c1-160)"
  [ $rc -gt $worst ] && worst=$rc
done
exit $worst
