#!/venv/bin/python
"""
Entry point: ./check <property id> [--tier quick|thorough] [--replay file]

Exit status: 0 property held on everything explored; 1 VIOLATION (with replay file);
2 harness error (never reported as a violation).
"""
import argparse
import importlib
import os
import sys

VERIF = os.path.dirname(os.path.abspath(__file__))


def main():
    ap = argparse.ArgumentParser()
    ap.add_argument("prop")
    ap.add_argument("--tier", default=os.environ.get("VERIF_TIER", "quick"), choices=["quick", "thorough"])
    ap.add_argument("--replay")
    ap.add_argument("--quiet", action="store_true")
    ap.add_argument("--cases", type=int)
    ap.add_argument("--budget", type=float)
    args = ap.parse_args()

    if os.environ.get("PYTHONHASHSEED") is None:
        # one fixed hash seed: set/dict iteration order must not be a hidden input
        os.environ["PYTHONHASHSEED"] = "0"
        os.execv(sys.executable, [sys.executable] + sys.argv)

    sys.path.insert(0, VERIF)
    from sim import build

    build.activate(quiet=args.quiet)
    from sim import engine, harness

    harness.install()
    mod = importlib.import_module(f"props.{args.prop.lower()}")
    if args.replay:
        return engine.replay_file(mod, args.replay, quiet=args.quiet)
    seed = int(os.environ.get("VERIF_SEED", "0"))
    return mod.main(seed, args.tier, args)


if __name__ == "__main__":
    try:
        rc = main()
    except SystemExit:
        raise
    except BaseException:
        import traceback

        traceback.print_exc()
        rc = 2
    sys.stdout.flush()
    sys.stderr.flush()
    try:
        from sim import build as _b, simfs as _s

        _b.cleanup()
        _s.cleanup()
    except Exception:
        pass
    os._exit(rc if isinstance(rc, int) else 2)
