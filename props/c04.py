"""
C04 -- each read is written once or counted as filtered once; totals add up.
Exactly-once / conservation over all output streams and the reports, serial and parallel runner.
"""
import copy
import re

from sim import engine, fmt, gen
from . import common as C

ID = "C04"
LEVEL = "exploration"
RULE = (
    "Seeded cases weighted towards filters, redirect files, discard options and demultiplexing (single/paired, "
    "full/minimal report, always --json); each case is run with the serial runner and with 2-5 simulated workers under "
    "a seeded schedule, and the history (all closed output files + JSON report + text report) of each run is judged: ids "
    "unique across files, report counts equal file contents, input = output + sum of reported categories, ids in no "
    "file = sum of categories without redirect file; every 6th small case additionally re-runs each record alone and "
    "compares the sums. Non-trivial = at least two destinations/categories received reads; distinct = distinct "
    "(option-flag signature, set of non-empty destinations and categories, abstract schedule)."
)
ASSUMPTIONS = [
    "record ids 'rdNNNN' stay recoverable from the names cutadapt writes (the generator only adds renaming options that keep them)",
    "simulation kernel/SimFS as for C06; output files are read back with independent strict parsers and stdlib codecs",
]

REDIRECT_CATEGORY = {"too_short": "too_short", "too_long": "too_long", "untrimmed": "discard_untrimmed"}


def generate(rng, tier):
    case = _generate(rng, tier)
    if rng.random() < 0.3:
        # without --json the counts are taken from the text (or minimal) report: an accounting defect
        # then has to show in the printed figures instead of tripping the JSON report's assertion
        case["outs"] = [g for g in case["outs"] if g[0] != "--json"]
    return case


DESC2CAT = {
    "that were too short": "too_short", "that were too long": "too_long", "with too many N": "too_many_n",
    "with too many exp. errors": "too_many_expected_errors", "with too high error rate": "too_high_average_error_rate",
    "failed CASAVA filter": "casava_filtered", "discarded as trimmed": "discard_trimmed",
    "discarded as untrimmed": "discard_untrimmed",
}


def report_from_text(text, paired, minimal):
    """A dict shaped like the JSON report, built from the printed report. -> (dict or None, source)"""
    if minimal:
        mr = parse_minimal_report(text)
        if mr is None:
            return None, "minimal"
        f = {c: None for c in DESC2CAT.values()}
        f.update(too_short=int(mr["too_short"]), too_long=int(mr["too_long"]), too_many_n=int(mr["too_many_n"]))
        o2 = int(mr["out2_bp"]) if paired else None
        return {"read_counts": {"input": int(mr["in_reads"]), "output": int(mr["out_reads"]), "filtered": f},
                "basepair_counts": {"input": int(mr["in_bp"]), "input_read1": None, "input_read2": None,
                                    "output": int(mr["out_bp"]) + (o2 or 0), "output_read1": int(mr["out_bp"]), "output_read2": o2}}, "minimal"
    tr = parse_text_report(text)
    if tr is None or tr["total"] is None:
        return None, "text"
    f = {c: None for c in DESC2CAT.values()}
    for desc, v in tr["fates"].items():
        if desc in DESC2CAT:
            f[DESC2CAT[desc]] = v
        else:
            f["unknown:" + desc] = v
    t = text[text.index("=== Summary ===") :]
    m1 = re.search(r"Total basepairs processed:\s+[\d,]+ bp\n  Read 1:\s+([\d,]+) bp\n  Read 2:\s+([\d,]+) bp", t)
    m2 = re.search(r"Total written \(filtered\):\s+[\d,]+ bp \([^)]*\)\n  Read 1:\s+([\d,]+) bp\n  Read 2:\s+([\d,]+) bp", t)
    bc = {"input": tr["total_bp"], "output": tr["written_bp"],
          "input_read1": _num(m1.group(1)) if m1 else (None if paired else tr["total_bp"]),
          "input_read2": _num(m1.group(2)) if m1 else None,
          "output_read1": _num(m2.group(1)) if m2 else (None if paired else tr["written_bp"]),
          "output_read2": _num(m2.group(2)) if m2 else None}
    return {"read_counts": {"input": tr["total"], "output": tr["written"], "filtered": f}, "basepair_counts": bc}, "text"


def _generate(rng, tier):
    return gen.gen_case(rng, {
        "p_filters": 0.85, "p_redirect": 0.6, "p_untrimmed_opts": 0.6, "p_demux": 0.3, "p_combinatorial": 0.5,
        "p_minimal_report": 0.25, "p_info": 0.1, "p_rename": 0.1, "p_modifiers": 0.5, "p_long_read": 0.02, "p_devnull": 0.08, "p_qbase64": 0.04, "p_giant": 0.002, "p_bam": 0.05, "p_enospc": 0.08,
    })


def _num(s):
    return int(s.replace(",", ""))


def parse_text_report(text):
    """-> dict(total, written, fates{description: n}, total_bp, written_bp) or None"""
    if "=== Summary ===" not in text:
        return None
    t = text[text.index("=== Summary ===") :]
    out = {"fates": {}}
    m = re.search(r"Total (?:reads|read pairs) processed:\s+([\d,]+)", t)
    out["total"] = _num(m.group(1)) if m else None
    m = re.search(r"(?:Reads|Pairs) written \(passing filters\):\s+([\d,]+)", t)
    out["written"] = _num(m.group(1)) if m else None
    if "== Read fate breakdown ==" in t:
        sect = t[t.index("== Read fate breakdown ==") :]
        sect = sect[: sect.index("written (passing filters)")] if "written (passing filters)" in sect else sect
        for m in re.finditer(r"^(?:Reads|Pairs) ([^:]*):\s+([\d,]+) \(", sect, re.M):
            out["fates"][m.group(1).strip()] = _num(m.group(2))
    m = re.search(r"Total basepairs processed:\s+([\d,]+) bp", t)
    out["total_bp"] = _num(m.group(1)) if m else None
    m = re.search(r"Total written \(filtered\):\s+([\d,]+) bp", t)
    out["written_bp"] = _num(m.group(1)) if m else None
    return out


def parse_minimal_report(text):
    lines = [ln for ln in text.splitlines() if "\t" in ln]
    for a, b in zip(lines, lines[1:]):
        if a.startswith("status\t"):
            return dict(zip(a.split("\t"), b.split("\t")))
    return None


def judge(case, res, name):
    out = []
    n = len(case["records"])
    paired = case["paired"]
    j = C.load_json_report(res)
    source = "json"
    text_all = (res.stdout.decode("latin-1") if isinstance(res.stdout, bytes) else res.stdout) + "\n" + res.stderr
    if j is None:
        if any(g[0] == "--json" for g in case["outs"]):
            return [C.V("json-missing", f"{name}: no JSON report")]
        if n == 0:
            return []  # "No reads processed!": nothing is printed
        j, source = report_from_text(text_all, paired, any(g[0] == "--report" for g in case["outs"]))
        if j is None:
            return [C.V("text-report-missing", f"{name}: no report found")]
    rc, bc = j["read_counts"], j["basepair_counts"]
    dests = C.destinations(case)
    input_ids = {r[0] for r in case["records"]}
    seen = {}
    per_role = {}
    sink_n = 0
    sink_bp = [0, 0]
    nonempty = set()
    unobserved = set()  # roles whose file(s) are /dev/null
    bp_partial = False
    for d in dests:
        try:
            f, r1, r2, observed = C.read_dest_ex(res, d)
            if observed == "none":
                unobserved.add(d["role"])
                continue
            if observed != "both":
                # one file of the pair is /dev/null: the other one alone carries the records
                bp_partial = bp_partial or d["role"] == "sink"
                r1, r2 = (r1 if observed == "r1" else r2), None
        except KeyError as e:
            out.append(C.V("output-missing", f"{name}: output file {e} was not created"))
            continue
        except fmt.FormatError as e:
            out.append(C.V("output-unreadable", f"{name}: {d['paths']}: {e}"))
            continue
        if r2 is not None and len(r1) != len(r2):
            out.append(C.V("pair-count", f"{name}: {d['paths']}: {len(r1)} vs {len(r2)} records"))
            continue
        if r1:
            nonempty.add(d["role"] + ":" + str(d["key"]))
        local = set()
        for k, rec in enumerate(r1):
            i = C.rid(rec[0])
            if i not in input_ids:
                out.append(C.V("foreign-id", f"{name}: {d['paths'][0]}: record {rec[0]!r} is not an input read"))
                continue
            if i in local:
                out.append(C.V("duplicate-in-file", f"{name}: {i} occurs twice in {d['paths'][0]}"))
            elif i in seen:
                out.append(C.V("duplicate-across-files", f"{name}: {i} written to {seen[i]} and to {d['paths'][0]}"))
            local.add(i)
            seen[i] = d["paths"][0]
            if r2 is not None and C.rid(r2[k][0]) != i:
                out.append(C.V("pair-mismatch", f"{name}: {d['paths']}: record {k} R1 {rec[0]!r} vs R2 {r2[k][0]!r}"))
        per_role[d["role"]] = per_role.get(d["role"], 0) + len(r1)
        if d["role"] == "sink":
            sink_n += len(r1)
            sink_bp[0] += sum(len(r[1]) for r in r1)
            if r2 is not None:
                sink_bp[1] += sum(len(r[1]) for r in r2)
    if out:
        return out
    # clause 2
    if rc["input"] != n:
        out.append(C.V("input-count", f"{name}: report input={rc['input']} but {n} records were given"))
    bp1 = sum(len(r[3]) for r in case["records"])
    bp2 = sum(len(r[5]) for r in case["records"]) if paired else 0
    if (bc["input_read1"] is not None and bc["input_read1"] != bp1) or (paired and bc["input_read2"] is not None and bc["input_read2"] != bp2) or bc["input"] != bp1 + bp2:
        out.append(C.V("input-bp", f"{name}: report input bp {bc['input_read1']}/{bc['input_read2']} but input has {bp1}/{bp2}"))
    # clause 3
    if rc["output"] != sink_n:
        out.append(C.V("output-count", f"{name}: report output={rc['output']} but the final output files hold {sink_n} records"))
    if bp_partial:
        pass
    elif (bc["output_read1"] is not None and bc["output_read1"] != sink_bp[0]) or (paired and bc["output_read2"] is not None and bc["output_read2"] != sink_bp[1]) or bc["output"] != sum(sink_bp):
        out.append(C.V("output-bp", f"{name}: report output bp {bc['output_read1']}/{bc['output_read2']} but files hold {sink_bp}"))
    # clause 4
    filt = {k: (v or 0) for k, v in rc["filtered"].items()}
    redirected_total = 0
    for role, cat in REDIRECT_CATEGORY.items():
        if role in unobserved:
            continue  # sent to /dev/null: like a category without a redirect file
        if role in per_role or any(d["role"] == role for d in dests):
            cnt = per_role.get(role, 0)
            redirected_total += cnt
            if source == "minimal" and cat not in ("too_short", "too_long"):
                continue  # the minimal report has no column for this category
            if filt.get(cat, 0) != cnt:
                out.append(C.V("redirect-count", f"{name}: report says {cat}={filt.get(cat)} but its redirect file holds {cnt} records"))
    # clause 5
    total_f = sum(filt.values())
    sums_ok = source != "minimal" or not any(g[0] in ("--max-ee", "--max-aer", "--discard-casava", "--discard-trimmed", "--discard-untrimmed", "--untrimmed-output") or "{name" in (g[1] if len(g) > 1 else "") for g in case["opts"] + case["outs"])
    if sums_ok and rc["output"] + total_f != rc["input"]:
        out.append(C.V("sum-json" if source == "json" else "sum-text", f"{name}: {source} report: output {rc['output']} + filtered {filt} != input {rc['input']}"))
    in_no_file = n - len(seen)
    if sums_ok and in_no_file != total_f - redirected_total:
        out.append(C.V("silent-loss", f"{name}: {in_no_file} input reads are in no output file but the categories without redirect file sum to {total_f - redirected_total} ({filt})"))
    text = text_all
    minimal = any(g[0] == "--report" for g in case["outs"])
    if source != "json":
        pass
    elif minimal:
        mr = parse_minimal_report(text)
        if mr is None:
            out.append(C.V("minimal-report-missing", f"{name}: minimal report not found"))
        else:
            exp = {"in_reads": rc["input"], "out_reads": rc["output"], "too_short": filt.get("too_short", 0),
                   "too_long": filt.get("too_long", 0), "too_many_n": filt.get("too_many_n", 0),
                   "in_bp": bc["input"], "out_bp": bc["output_read1"]}
            for k, v in exp.items():
                if int(mr.get(k, -1)) != v:
                    out.append(C.V("minimal-report", f"{name}: minimal report {k}={mr.get(k)} but JSON says {v}"))
            if paired and int(mr.get("out2_bp", -1)) != bc["output_read2"]:
                out.append(C.V("minimal-report", f"{name}: minimal report out2_bp={mr.get('out2_bp')} != {bc['output_read2']}"))
    elif n > 0:
        tr = parse_text_report(text)
        if tr is None:
            out.append(C.V("text-report-missing", f"{name}: text report not found"))
        else:
            if tr["total"] != n or tr["written"] != sink_n:
                out.append(C.V("text-report", f"{name}: text report total={tr['total']} written={tr['written']} but input {n}, files {sink_n}"))
            if tr["total"] is not None and tr["written"] is not None and tr["written"] + sum(tr["fates"].values()) != tr["total"]:
                out.append(C.V("sum-text", f"{name}: text report: written {tr['written']} + fates {tr['fates']} != total {tr['total']}"))
            if tr["total_bp"] != bp1 + bp2 or tr["written_bp"] != sum(sink_bp):
                out.append(C.V("text-report-bp", f"{name}: text report bp {tr['total_bp']}/{tr['written_bp']} but {bp1+bp2}/{sum(sink_bp)}"))
    case["meta"]["nonempty"] = sorted(set(case["meta"].get("nonempty") or []) | nonempty | {"cat:" + k for k, v in filt.items() if v})
    return out


SUM_KEYS_RC = ["input", "output", "read1_with_adapter", "read2_with_adapter", "reverse_complemented"]
SUM_KEYS_BC = ["input", "input_read1", "input_read2", "quality_trimmed", "quality_trimmed_read1", "quality_trimmed_read2",
               "poly_a_trimmed", "poly_a_trimmed_read1", "poly_a_trimmed_read2", "output", "output_read1", "output_read2"]


def sums_over_reads(case, ctx, whole):
    """Clause 6: the whole run's counts equal the sums of single-record runs."""
    out = []
    jw = C.load_json_report(whole)
    acc_rc = {k: None for k in SUM_KEYS_RC}
    acc_bc = {k: None for k in SUM_KEYS_BC}
    acc_f = {}

    def add(acc, k, v):
        if v is not None:
            acc[k] = (acc[k] or 0) + v

    for i, rec in enumerate(case["records"]):
        c1 = copy.deepcopy(case)
        c1["records"] = [rec]
        c1["meta"] = dict(case["meta"])
        files = gen.materialize(c1)
        r = ctx.run(f"single{i}", gen.build_argv(c1, cores=1), files, parallel=False)
        if r.exit != 0:
            raise engine.Discard("single-record-run-failed")
        j = C.load_json_report(r)
        for k in SUM_KEYS_RC:
            add(acc_rc, k, j["read_counts"][k])
        for k in SUM_KEYS_BC:
            add(acc_bc, k, j["basepair_counts"][k])
        for k, v in j["read_counts"]["filtered"].items():
            if v is not None:
                acc_f[k] = acc_f.get(k, 0) + v
        ctx.results.pop(f"single{i}", None)
    for k in SUM_KEYS_RC:
        w = jw["read_counts"][k]
        if (w or 0) != (acc_rc[k] or 0):
            out.append(C.V("sum-over-reads", f"read_counts.{k}: whole run {w}, sum over single-read runs {acc_rc[k]}"))
    for k in SUM_KEYS_BC:
        w = jw["basepair_counts"][k]
        if (w or 0) != (acc_bc[k] or 0):
            out.append(C.V("sum-over-reads", f"basepair_counts.{k}: whole run {w}, sum over single-read runs {acc_bc[k]}"))
    for k, w in jw["read_counts"]["filtered"].items():
        if (w or 0) != acc_f.get(k, 0):
            out.append(C.V("sum-over-reads", f"filtered.{k}: whole run {w}, sum over single-read runs {acc_f.get(k, 0)}"))
    return out


def isolated_modifier_accounting(case, ctx, files):
    """
    Clause 7: the quality-trimmed and poly-A-trimmed base counts are checked against what the
    output files show when that modifier is the only one at work: trimmed bp of read i =
    input bp - output bp of read i (no filter, no other modifier, plain outputs).
    """
    out = []
    paired = case["paired"]
    ext = ".fastq" if case["fmt"] == "fastq" else ".fasta"
    base_outs = [["-o", "/simfs/iso1" + ext]] + ([["-p", "/simfs/iso2" + ext]] if paired else []) + [["--json", "/simfs/iso.json"]]
    if case["input"]["layout"] == "interleaved":
        base_outs.append(["--interleaved"])
    groups = {
        "quality_trimmed": [g for g in case["opts"] if g[0] in ("-q", "-Q", "--nextseq-trim")],
        "poly_a_trimmed": [g for g in case["opts"] if g[0] == "--poly-a"],
    }
    for key, opts in groups.items():
        if not opts or (key == "quality_trimmed" and case["fmt"] != "fastq"):
            continue
        r = ctx.run("iso-" + key, gen.build_argv(case, cores=1, opts=opts, outs=base_outs), files, parallel=False)
        if r.exit != 0:
            continue
        j = C.load_json_report(r, "/simfs/iso.json")
        bc = j["basepair_counts"]
        for i, side in ((1, "read1"), (2, "read2")):
            if i == 2 and not paired:
                continue
            removed = bc[f"input_{side}"] - bc[f"output_{side}"]
            reported = bc[f"{key}_{side}"]
            if (reported or 0) != removed:
                out.append(C.V("modifier-accounting", f"with only {[' '.join(g) for g in opts]}: {key}_{side}={reported} but {removed} bases of {side} were removed (input {bc[f'input_{side}']}, output {bc[f'output_{side}']})"))
        total = bc[key]
        if (total or 0) != (bc["input"] - bc["output"]):
            out.append(C.V("modifier-accounting", f"with only {[' '.join(g) for g in opts]}: {key}={total} but {bc['input'] - bc['output']} bases were removed"))
        # the figures themselves are tied to the files by the main clauses; here also check them
        try:
            d = {"role": "sink", "paths": ["/simfs/iso1" + ext] + (["/simfs/iso2" + ext] if paired else []), "interleaved": False, "key": None}
            f_, r1, r2 = C.read_dest(r, d)
            if sum(len(x[1]) for x in r1) != bc["output_read1"] or (paired and sum(len(x[1]) for x in r2) != bc["output_read2"]):
                out.append(C.V("modifier-accounting", f"isolated run: output bp in report and files differ"))
        except Exception:
            pass
        ctx.results.pop("iso-" + key, None)
    return out


def evaluate(case, ctx):
    files = engine.gen_files(case)
    case["meta"]["nonempty"] = []
    ref = C.run_serial(case, ctx, files)
    if ref.outcome != "finished":
        return [C.V("serial-hang", f"serial run did not finish: {ref.outcome}")]
    if ref.exit == 2:
        raise engine.Discard("cli-rejected")
    viols = []
    if ref.exit != 0 and ref.env_fired.get("enospc") and ref.error_reported():
        # the injected full disk was noticed and reported: a legitimately failed run, nothing to account for
        raise engine.Discard("disk-full-reported")
    if ref.exit != 0:
        if "AssertionError" in ref.stderr and "as_json" in ref.stderr:
            viols.append(C.V("json-assertion", "serial: --json crashed: assert written_reads + filtered_total == self.n"))
            return viols
        if "Too many open files" in ref.stderr and ref.env_fired.get("emfile"):
            return [C.V("output-missing", f"serial: the run gave up at the descriptor limit (EMFILE) instead of raising it: {ref.stderr[-200:]!r}")]
        raise engine.Discard("reference-run-failed")
    viols += judge(case, ref, "serial")
    if any(v["clause"] == "output-unreadable" for v in viols):
        raise engine.Discard("serial-output-malformed")  # per-read defect, not this property
    par = C.run_parallel(case, ctx, files)
    hv = C.hang_violations(par, "par")
    if hv:
        return viols + hv
    if par.exit != 0 and par.env_fired.get("enospc") and par.error_reported():
        pass  # as above
    elif par.exit != 0:
        if C.is_buffer_too_small(par, case):
            raise engine.Discard("buffer-too-small")
        viols.append(C.V("exit-status", f"par: exit status {par.exit}; stderr tail {par.stderr[-300:]!r}"))
    else:
        viols += [v for v in judge(case, par, "par")]
    n = len(case["records"])
    if not viols and n <= 200:
        viols += isolated_modifier_accounting(case, ctx, files)
    if not viols and 0 < n <= 14 and case["knobs"]["sched_seed"] % 6 == 0 and any(g[0] == "--json" for g in case["outs"]):
        viols += sums_over_reads(case, ctx, ref)
    # the same defect usually shows in both runs: keep one violation per clause
    seen, uniq = set(), []
    for v in viols:
        if v["clause"] not in seen:
            seen.add(v["clause"])
            uniq.append(v)
    return uniq


def nontrivial_key(case, ctx):
    ne = case["meta"].get("nonempty") or []
    if len(ne) < 2:
        return None
    return [C.option_signature(case), sorted(ne), repr(ctx.abstract[-1]) if ctx.abstract else None]


def signature(case, violation):
    s = C.base_signature(case, violation)
    flags = C.option_signature(case)
    s["discard_untrimmed"] = "--discard-untrimmed" in flags
    s["max_aer"] = "--max-aer" in flags
    return s


sample_view = C.sample_view


def main(seed, tier, args):
    import sys

    n = args.cases or (3000 if tier == "quick" else 60000)
    budget = args.budget or (150 if tier == "quick" else 900)
    rc, ev = engine.run_batch(sys.modules[__name__], seed, tier, n, budget)
    c = ev["coverage"]
    print(f"C04 {tier}: {c['evaluations']} cases judged, {c['distinct_nontrivial']} distinct non-trivial, discards {c['discards_by_reason']}, wall {ev['wall_s']}s")
    return rc
