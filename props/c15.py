"""
C15 -- demultiplexing puts every read into the file of its adapter.
"""
import re
from collections import Counter

from sim import engine, fmt, gen
from . import common as C

ID = "C15"
LEVEL = "exploration"
RULE = (
    "Seeded demultiplexing cases: 1-5 named adapters on R1 (and R2) plus a never-planted decoy adapter, {name} and "
    "{name1}/{name2} templates (plain and compressed), with/without --discard-untrimmed / --untrimmed-output, --times "
    "1-3, filters, empty inputs; every read is stamped by cutadapt's own -y ' dm={name}' with the name of its last "
    "match. Each case is run serially, with 2-5 simulated workers under a seeded schedule, and once more serially with a "
    "plain -o instead of the template. Oracle: the set of created files equals the documented set (empty ones "
    "included, valid containers); every record lies in the file its stamp(s) select; the multiset of records over all "
    "demultiplexed files equals the plain run's output (when no trimmed/untrimmed option is used; single-end "
    "--discard-untrimmed: union of named files = plain run with the same option); the multi-core files equal the "
    "single-core ones. Non-trivial = reads reached >= 2 different files; distinct = distinct (option-flag signature, "
    "set of non-empty files, abstract schedule)."
)
ASSUMPTIONS = [
    "the routing witness is the '-y dm={name}' stamp written by cutadapt's PrefixSuffixAdder (name of the last match or no_adapter)",
    "simulation kernel/SimFS as for C06",
]

STAMP = re.compile(r" dm=(\S+)$")
SIDE_FILES = ("report.json", "info.tsv", "info.tsv.gz", "rest.txt", "wild.txt", "wild.txt.gz")


def generate(rng, tier):
    return gen.gen_case(rng, {
        "p_demux": 1.0, "p_combinatorial": 0.4, "p_paired": 0.55, "require_named": True, "force_suffix": " dm={name}",
        "p_rename": 0.0, "p_untrimmed_opts": 0.5, "p_filters": 0.35, "p_redirect": 0.3, "p_decoy_adapter": 0.5, "p_unknown_name": 0.12, "p_duplicate_adapter": 0.1, "p_same_name": 0.1, "p_case_name": 0.08, "p_many_adapters": 0.01, "p_quiet": 0.04, "p_debug": 0.03,
        "p_info": 0.1, "p_pair_adapters": 0.1, "p_revcomp": 0.08, "p_minimal_report": 0.05, "times": (1, 3),
    })


def stamp(rec):
    m = STAMP.search(rec[0])
    return m.group(1) if m else None


def record_files(case, res):
    return {p for p in C.outputs_of(case, res) if not p.endswith(SIDE_FILES)}


def judge(case, res, name):
    viols = []
    meta = case["meta"]
    dests = C.destinations(case)
    expected = {p for d in dests for p in d["paths"] if p != C.STDOUT}
    actual = record_files(case, res)
    if expected != actual:
        viols.append(C.V("file-set", f"{name}: missing files {sorted(expected - actual)}, unexpected files {sorted(actual - expected)}"))
    nonempty = []
    all_records = [Counter(), Counter()]
    named_records = [Counter(), Counter()]
    for d in dests:
        try:
            f, r1, r2 = C.read_dest(res, d)
        except KeyError:
            continue
        except fmt.FormatError as e:
            viols.append(C.V("unreadable-file", f"{name}: {d['paths']}: {e}"))
            continue
        if r2 is not None and len(r1) != len(r2):
            viols.append(C.V("desync", f"{name}: {d['paths']}: {len(r1)} vs {len(r2)} records"))
            continue
        if r1:
            nonempty.append(d["paths"][0])
        if d["role"] != "sink":
            continue
        key = d["key"]
        if isinstance(key, list):
            key = tuple(key)
        for k, a in enumerate(r1):
            s1 = stamp(a)
            if meta["demux"] == "normal":
                exp = key if key is not None else "no_adapter"
                if s1 != exp:
                    viols.append(C.V("routing", f"{name}: {a[0]!r} (last match on R1: {s1}) is in {d['paths'][0]}"))
            else:
                s2 = stamp(r2[k])
                exp = (key[0] or "no_adapter", key[1] or "no_adapter")
                if (s1, s2) != exp:
                    viols.append(C.V("routing", f"{name}: pair {a[0]!r} (last matches {s1}/{s2}) is in {d['paths'][0]}"))
            all_records[0][tuple(a)] += 1
            if r2 is not None:
                all_records[1][tuple(r2[k])] += 1
            if key is not None and key != (None, None):
                named_records[0][tuple(a)] += 1
    case["meta"]["nonempty_files"] = sorted(set(case["meta"].get("nonempty_files") or []) | set(nonempty))
    return viols, all_records, named_records


def plain_variant_outs(case):
    outs = []
    for g in case["outs"]:
        if g[0] == "-o":
            outs.append(["-o", "/simfs/plain_1" + _ext(g[1])])
        elif g[0] == "-p":
            outs.append(["-p", "/simfs/plain_2" + _ext(g[1])])
        else:
            outs.append(g)
    return outs


def _ext(path):
    base = fmt.strip_container(path)
    return base[base.rindex(".") :] + fmt.container_of(path)  # templates always carry an extension


def evaluate(case, ctx):
    files = engine.gen_files(case)
    case["meta"]["nonempty_files"] = []
    meta = case["meta"]
    ref = C.run_serial(case, ctx, files)
    if ref.exit == 2:
        raise engine.Discard("cli-rejected")
    if ref.exit != 0 and "Too many open files" in ref.stderr and ref.env_fired.get("emfile"):
        # the descriptor limit was reached while the output files were opened: cutadapt raises its limit and goes on
        return [C.V("file-set", f"serial: the run gave up at the descriptor limit (EMFILE) instead of raising it: {ref.stderr[-200:]!r}")]
    if ref.exit != 0:
        raise engine.Discard("reference-run-failed")
    viols, allrec, named = judge(case, ref, "serial")
    if any(v["clause"] == "unreadable-file" and "gzip" not in v["msg"] and "container" not in v["msg"] for v in viols):
        raise engine.Discard("serial-output-malformed")  # per-read defect, not this property
    flags = C.option_signature(case)
    untrimmed_opt = any(f in flags for f in ("--discard-untrimmed", "--untrimmed-output", "--discard-trimmed"))
    if not untrimmed_opt or (not case["paired"] and "--discard-untrimmed" in flags):
        pouts = plain_variant_outs(case)
        pl = ctx.run("plain", gen.build_argv(case, cores=1, outs=pouts), files, parallel=False)
        if pl.exit != 0:
            raise engine.Discard("plain-variant-failed")
        pcase = dict(case)
        pcase["outs"] = pouts
        pcase["meta"] = dict(meta, demux=False)
        main = [d for d in C.destinations(pcase) if d["role"] == "sink"][0]
        try:
            f, p1, p2 = C.read_dest(pl, main)
        except (KeyError, fmt.FormatError) as e:
            return viols + [C.V("plain-variant-unreadable", str(e))]
        want1 = Counter(tuple(r) for r in p1)
        got1 = allrec[0] if not untrimmed_opt else named[0]
        if want1 != got1:
            extra = list((got1 - want1).elements())[:2]
            missing = list((want1 - got1).elements())[:2]
            viols.append(C.V("multiset", f"serial: records over all demultiplexed files differ from the plain -o run: only demultiplexed {extra}, only plain {missing}"))
        if p2 is not None and not untrimmed_opt and Counter(tuple(r) for r in p2) != allrec[1]:
            viols.append(C.V("multiset", "serial: R2 records over all demultiplexed files differ from the plain -o/-p run"))
    par = C.run_parallel(case, ctx, files)
    hv = C.hang_violations(par, "par")
    if hv:
        return viols + hv
    if par.exit != 0:
        if C.is_buffer_too_small(par, case):
            raise engine.Discard("buffer-too-small")
        viols.append(C.V("exit-status", f"par: exit status {par.exit}; stderr tail {par.stderr[-300:]!r}"))
    else:
        v2, _, _ = judge(case, par, "par")
        viols += v2
        viols += [v for v in C.compare_with_reference(case, ref, par) if v["clause"] in ("file-set", "file-content")]
    seen, uniq = set(), []
    for v in viols:
        if v["clause"] not in seen:
            seen.add(v["clause"])
            uniq.append(v)
    return uniq


def nontrivial_key(case, ctx):
    ne = case["meta"].get("nonempty_files") or []
    if len(ne) < 2:
        return None
    return [C.option_signature(case), ne, repr(ctx.abstract[-1]) if ctx.abstract else None]


signature = C.base_signature
sample_view = C.sample_view


def main(seed, tier, args):
    import sys

    n = args.cases or (3000 if tier == "quick" else 60000)
    budget = args.budget or (150 if tier == "quick" else 900)
    rc, ev = engine.run_batch(sys.modules[__name__], seed, tier, n, budget)
    c = ev["coverage"]
    print(f"C15 {tier}: {c['evaluations']} cases judged, {c['distinct_nontrivial']} distinct non-trivial, discards {c['discards_by_reason']}, wall {ev['wall_s']}s")
    return rc
