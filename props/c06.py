"""
C06 -- multi-core runs give the single-core result under every schedule.
"""
import sys

from sim import engine, gen
from . import common as C

ID = "C06"
LEVEL = "exploration"
RULE = (
    "Each case: seeded random records/layout/command line (option grammar of DESIGN §4) run once with the serial "
    "runner and once with 2-5 simulated worker processes under a seeded scheduling policy (uniform, PCT, sticky, "
    "starve, round-robin, lowest-first), random pipe capacity, queue-feeder mode and --buffer-size. Non-trivial = "
    "the multi-core run split the input into >= 2 chunks and >= 2 workers processed chunks; distinct = distinct "
    "(abstract schedule: chunk->pipe assignment order + order of result arrival at main, option-flag signature)."
)
ASSUMPTIONS = [
    "processes are modelled as threads with pickled (spawn-style) state; pre-emption only at IPC operations, which is "
    "sound because cutadapt's processes share no memory and touch disjoint files",
    "pipes are message-granular; xopen's compression threads/external programs are replaced by the in-process codecs",
    "schedules are sampled, not enumerated",
]


def generate(rng, tier):
    return gen.gen_case(rng, {"p_demux": 0.12, "p_mixed_pair": 0.02, "p_devnull": 0.05, "p_qbase64": 0.04, "p_quiet": 0.04, "p_nonascii_name": 0.04, "p_giant": 0.002, "p_huge": 0.006, "p_bam": 0.05, "p_same_r2": 0.03, "p_devfd": 0.05})


def evaluate(case, ctx):
    files = engine.gen_files(case)
    ref = C.run_serial(case, ctx, files)
    if ref.outcome != "finished":
        return [C.V("serial-hang", f"serial run did not finish: {ref.outcome}")]
    if ref.exit == 2:
        raise engine.Discard("cli-rejected")
    if ref.exit != 0:
        raise engine.Discard("reference-run-failed")
    par = C.run_parallel(case, ctx, files)
    hv = C.hang_violations(par, "par")
    if hv:
        return hv
    if par.exit != 0 and C.is_buffer_too_small(par, case):
        raise engine.Discard("buffer-too-small")
    viols = C.compare_with_reference(case, ref, par)
    # bounded liveness: once the starvation window is over (faults have stopped), the run must
    # finish within four times the number of messages the protocol needs for ALL the work
    pol = case["knobs"]["policy"]
    assign, arrive = ctx.abstract[-1]
    n_inputs = len(gen.input_paths(case))
    chunks = len(assign) // max(1, n_inputs)
    n_out = len(C.outputs_of(case, par)) + 1
    bound = 4 * (chunks + case["knobs"]["workers"] + 2) * (10 + 2 * n_out)
    after = par.steps - (pol["window"][1] if pol["kind"] == "starve" else 0)
    case["meta"]["liveness"] = [par.steps, bound]
    if after > bound:
        viols.append(C.V("liveness", f"par: {after} scheduler steps after the end of the starvation window; the protocol needs at most {bound // 4} messages for {chunks} chunks, {case['knobs']['workers']} workers, {n_out} output files"))
    return viols


def nontrivial_key(case, ctx):
    par = ctx.results.get("par")
    if par is None or not ctx.abstract:
        return None
    assign, arrive = ctx.abstract[-1]
    if len(assign) < 2 or len(set(arrive)) < 2:
        return None
    return [repr(ctx.abstract[-1]), C.option_signature(case)]


signature = C.base_signature


sample_view = C.sample_view


def conformance(seed, k):
    """Simulated vs. real execution of the same cases (validates the stubs, DESIGN §6.3)."""
    import sys
    from concurrent.futures import ThreadPoolExecutor

    from sim import harness, realrun

    src = next(p for p in sys.path if "cutadapt-verif-src" in p)
    todo = []
    for index in range(k):
        rng = engine.case_rng(seed, "C06conf", index)
        case = gen.gen_case(rng, {"p_demux": 0.12})
        case["knobs"]["preexist"] = False  # (the real runs start in an empty directory)
        files = engine.gen_files(case)
        ctx = engine.Ctx(case)
        s1 = C.run_serial(case, ctx, files)
        if s1.exit != 0:
            continue
        sn = C.run_parallel(case, ctx, files)
        if sn.outcome != "finished" or sn.exit != 0:
            continue
        todo.append((index, case, files, s1, sn))

    methods = {}

    def one(t):
        index, case, files, s1, sn = t
        inputs = set(gen.input_paths(case)) | set(case.get("aux_files") or ())
        r1 = realrun.run_real(gen.build_argv(case, cores=1), files, src)
        method = case["knobs"].get("start_method", "fork")
        if method == "spawn" and index % 2:
            method = "forkserver"  # like spawn, nothing but pickled state reaches the children
        rn = realrun.run_real(gen.build_argv(case, cores=case["knobs"]["workers"]), files, src, start_method=method)
        methods[method] = methods.get(method, 0) + 1
        return index, realrun.compare(s1, r1, inputs), realrun.compare(sn, rn, inputs)

    agree1 = agreen = 0
    problems = []
    methods = {}
    with ThreadPoolExecutor(8) as ex:
        for index, d1, dn in ex.map(one, todo):
            agree1 += not d1
            agreen += not dn
            if d1:
                problems.append(f"case {index} --cores 1: {d1}")
            if dn:
                problems.append(f"case {index} --cores N: {dn}")
    return {"sim_vs_real_cases": len(todo), "sim_vs_real_agree_cores_1": agree1, "sim_vs_real_agree_cores_N": agreen,
            "sim_vs_real_start_methods_of_the_real_runs": dict(sorted(methods.items())),
            "sim_vs_real_disagreements": problems[:5]}, problems


def main(seed, tier, args):
    import json
    import os

    n = args.cases or (4000 if tier == "quick" else 100000)
    budget = args.budget or (150 if tier == "quick" else 900)
    conf, problems = conformance(seed, 24 if tier == "quick" else 200)
    rc, ev = engine.run_batch(__import__("props.c06", fromlist=["x"]), seed, tier, n, budget, extra_evidence=conf)
    if problems:
        for p_ in problems[:5]:
            print("HARNESS-ERROR: simulated and real execution disagree:", p_[:600], file=sys.stderr)
        if rc == 0:
            rc = 2
    c = ev["coverage"]
    print(f"C06 {tier}: {c['evaluations']} cases judged, {c['distinct_nontrivial']} distinct non-trivial, "
          f"{c['distinct_schedule_digests']} distinct schedules, discards {c['discards_by_reason']}, wall {ev['wall_s']}s")
    return rc
