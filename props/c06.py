"""
C06 -- multi-core runs give the single-core result under every schedule.
"""
from sim import engine, gen
from . import common as C

ID = "C06"
LEVEL = "exploration"
RULE = (
    "Each case: seeded random records/layout/command line (option grammar of DESIGN §4) run once with the serial "
    "runner and once with 2-5 simulated worker processes under a seeded scheduling policy (uniform, PCT, sticky, "
    "starve, round-robin, lowest-first), random pipe capacity, queue-feeder mode and --buffer-size. Non-trivial = "
    "the multi-core run split the input into >= 2 chunks and >= 2 workers processed chunks; distinct = distinct "
    "(abstract schedule: chunk->pipe assignment order + order of result arrival at main, option-flag signature)."
)
ASSUMPTIONS = [
    "processes are modelled as threads with pickled (spawn-style) state; pre-emption only at IPC operations, which is "
    "sound because cutadapt's processes share no memory and touch disjoint files",
    "pipes are message-granular; xopen's compression threads/external programs are replaced by the in-process codecs",
    "schedules are sampled, not enumerated",
]


def generate(rng, tier):
    return gen.gen_case(rng, {"p_demux": 0.12, "p_interleaved_fasta": 0.15})


def evaluate(case, ctx):
    files = engine.gen_files(case)
    ref = C.run_serial(case, ctx, files)
    if ref.outcome != "finished":
        return [C.V("serial-hang", f"serial run did not finish: {ref.outcome}")]
    if ref.exit == 2:
        raise engine.Discard("cli-rejected")
    if ref.exit != 0:
        raise engine.Discard("reference-run-failed")
    par = C.run_parallel(case, ctx, files)
    hv = C.hang_violations(par, "par")
    if hv:
        return hv
    if par.exit != 0 and C.is_buffer_too_small(par):
        raise engine.Discard("buffer-too-small")
    return C.compare_with_reference(case, ref, par)


def nontrivial_key(case, ctx):
    par = ctx.results.get("par")
    if par is None or not ctx.abstract:
        return None
    assign, arrive = ctx.abstract[-1]
    if len(assign) < 2 or len(set(arrive)) < 2:
        return None
    return [repr(ctx.abstract[-1]), C.option_signature(case)]


signature = C.base_signature


sample_view = C.sample_view


def main(seed, tier, args):
    n = args.cases or (1600 if tier == "quick" else 60000)
    budget = args.budget or (100 if tier == "quick" else 900)
    rc, ev = engine.run_batch(__import__("props.c06", fromlist=["x"]), seed, tier, n, budget)
    c = ev["coverage"]
    print(f"C06 {tier}: {c['evaluations']} cases judged, {c['distinct_nontrivial']} distinct non-trivial, "
          f"{c['distinct_schedule_digests']} distinct schedules, discards {c['discards_by_reason']}, wall {ev['wall_s']}s")
    return rc
