"""
C19 -- results do not depend on compression, file layout or how a format is requested.
"""
import copy
import random

from sim import engine, fmt, gen
from . import common as C

ID = "C19"
LEVEL = "exploration"
RULE = (
    "One logical record set and command line per case, executed as a reference variant (plain input, two files, plain "
    "outputs, one core) and 4-7 variants that differ only in: input container (plain, gz, 2-4-member gz, bz2, "
    "concatenated bz2, xz, zst), input layout (two files / interleaved), FASTA instead of FASTQ input (only without "
    "quality-based options), output container per file, output extension (.fastq/.fq/.fasta/.fa), output layout (two "
    "files / interleaved), stdout with/without --fasta, and 1 or 2-5 simulated workers with seeded schedule and buffer "
    "size. Oracle: (1) every destination holds the same records as in the reference variant (names+sequences when a "
    "FASTA side is involved, else also qualities); (2) the format written equals a five-line transcription of the "
    "documented rule (extension before the compression suffix, else --fasta for stdout, else the input format). "
    "Non-trivial = a variant that differs from the reference in >= 2 dimensions and produced >= 1 record; distinct = "
    "distinct (input container, layout, input format, output containers, output classes, cores) tuples."
)
ASSUMPTIONS = [
    "outputs are decompressed with the standard library codecs (zstd: backports.zstd) and parsed by independent strict readers",
    "a '.fastq' output name with FASTA input, and output pairs that ask for two different formats, are not documented requests and are not generated",
    "simulation kernel/SimFS as for C06",
]

QUALITY_FLAGS = {"-q", "-Q", "--nextseq-trim", "--max-ee", "--max-aer", "--zero-cap"}
RECORD_OUT_FLAGS = {"-o", "-p", "--untrimmed-output", "--untrimmed-paired-output", "--too-short-output",
                    "--too-short-paired-output", "--too-long-output", "--too-long-paired-output"}
PAIRED_OUT_FLAGS = {"-p", "--untrimmed-paired-output", "--too-short-paired-output", "--too-long-paired-output"}
IN_CONTAINERS = ["", ".gz", ".gz", ".bz2", ".xz", ".zst"]
OUT_CONTAINERS = ["", "", ".gz", ".bz2", ".xz", ".zst"]


def generate(rng, tier):
    case = gen.gen_case(rng, {
        "p_info": 0.0, "p_demux": 0.12, "p_minimal_report": 0.0, "json": False, "p_stdout": 0.0,
        "in_containers": ("",), "out_containers": ("",), "fastq": True, "p_interleaved_out": 0.0,
        "n_records": (0, 30), "p_interleaved_redirect": 0.0, "p_huge": 0.02, "p_giant": 0.006, "p_quiet": 0.04, "p_debug": 0.03,
    })
    case["input"]["layout"] = "two" if case["paired"] else "single"
    case["input"]["containers"] = [""] * (2 if case["paired"] else 1)
    case["input"]["members"] = [1] * (2 if case["paired"] else 1)
    case["outs"] = [g for g in case["outs"] if g[0] != "--interleaved"]
    case["n_variants"] = rng.randint(4, 7) if case["meta"].get("big") not in (2, 3) else 7
    case["variant_seed"] = rng.randrange(1 << 40)
    return case


# names without a recognised extension, some of them ending in the *letters* of one
NO_EXT = ["", ".txt", ".out", "_fa", "_fq", "_fastq", "xfasta", ".fastq_", ".fa.txt"]


def expected_format(path, fasta_flag, input_fmt):
    """The documented rule."""
    if path == C.STDOUT:
        return "fasta" if fasta_flag else input_fmt  # --fasta concerns standard output only
    name = fmt.strip_container(path).lower()
    if name.endswith((".fasta", ".fa")):
        return "fasta"
    if name.endswith((".fastq", ".fq")):
        return "fastq"
    return input_fmt


def _stem(path):
    base = fmt.strip_container(path)
    name = base.rsplit("/", 1)[-1]
    return base[: base.rindex(".")] if "." in name else base


def make_variant(base, rng, reference=False):
    v = copy.deepcopy(base)
    dims = {}
    paired = base["paired"]
    has_quality_opts = any(g[0] in QUALITY_FLAGS for g in base["opts"])
    demux = base["meta"]["demux"]
    # ---- input
    to_fasta = (not reference) and (not has_quality_opts) and rng.random() < 0.2
    if to_fasta:
        v["fmt"] = "fasta"
        for r in v["records"]:
            r[4] = None
            r[6] = None if paired else r[6]
    dims["input_fmt"] = v["fmt"]
    layout = base["input"]["layout"]
    if not reference and paired and rng.random() < 0.45:
        layout = "interleaved"
    cores = 1
    huge = base["meta"].get("big") in (2, 3)  # size-dependent paths of the multi-core writers: more such variants
    if not reference and rng.random() < (0.8 if huge else 0.5):
        cores = base["knobs"]["workers"]
    nfiles = 2 if layout == "two" else 1
    conts = [""] * nfiles if reference else [rng.choice(IN_CONTAINERS) for _ in range(nfiles)]
    members = [rng.randint(2, 4) if (c and rng.random() < 0.4) else 1 for c in conts]
    ext = (".fastq" if v["fmt"] == "fastq" else ".fasta") if reference else rng.choice(
        ([".fastq", ".fq", ""] if v["fmt"] == "fastq" else [".fasta", ".fa", ""]))
    comments = rng.randint(1, 2) if (v["fmt"] == "fasta" and not reference and rng.random() < 0.3) else 0
    v["input"] = {"layout": layout, "ext": ext, "containers": conts, "members": members, "comments": comments}
    v["member_seed"] = rng.randrange(1 << 30)
    dims.update(layout=layout, containers=conts, members=members, cores=cores, comments=comments)
    # ---- outputs
    outs = []
    out_interleaved = False
    if not reference and paired and not demux and rng.random() < 0.3:
        out_interleaved = True
    to_stdout = (not reference) and (not paired) and (not demux) and rng.random() < 0.2
    fasta_flag = False
    classes = {}
    for g in base["outs"]:
        if g[0] in RECORD_OUT_FLAGS:
            if out_interleaved and g[0] in PAIRED_OUT_FLAGS:
                continue
            if to_stdout and g[0] == "-o":
                continue
            pairkey = g[0].replace("-paired", "").replace("-p", "-o") if g[0] != "-p" else "-o"
            if pairkey not in classes:
                if v["fmt"] == "fasta":
                    classes[pairkey] = [".fasta", ".fa"]
                elif reference:
                    classes[pairkey] = [".fastq"] if fmt.strip_container(g[1]).endswith((".fastq", ".fq")) else [".fasta"]
                else:
                    r_ = rng.random()
                    if huge and r_ < 0.6:
                        r_ += 0.3
                    classes[pairkey] = [".fastq", ".fq"] if r_ < 0.6 else ([".fasta", ".fa"] if r_ < 0.88 else NO_EXT)
                if v["fmt"] == "fasta" and not reference and rng.random() < 0.12:
                    classes[pairkey] = NO_EXT  # no recognised extension: falls back to the input format
            e = rng.choice(classes[pairkey])
            c = "" if reference else rng.choice(OUT_CONTAINERS)
            stem = _stem(g[1])
            if not reference and g[0] == "-o" and e.startswith(".") and "{" not in stem and rng.random() < 0.06:
                # a file named by its extension alone ('-o ${prefix}.fasta' with an empty prefix)
                stem = stem.rsplit("/", 1)[0] + "/"
            outs.append([g[0], stem + e + c])
        else:
            outs.append(g)
    if to_stdout and v["fmt"] == "fastq" and rng.random() < 0.5:
        outs.append(["--fasta"])
        fasta_flag = True
    elif (not reference) and (not to_stdout) and (not paired) and rng.random() < 0.06:
        # --fasta is documented for standard output only: a named output keeps the format of its
        # name (only names with a recognised extension are combined with it)
        if all(fmt.strip_container(g[1]).endswith((".fastq", ".fq", ".fasta", ".fa")) for g in outs if g[0] in RECORD_OUT_FLAGS):
            outs.append(["--fasta"])
            dims["fasta_with_named_output"] = True
    if (not reference) and paired and not demux and not out_interleaved and cores == 1 and rng.random() < 0.08:
        # only one mate is wanted: the other file of the main output is /dev/null (one core only: with several,
        # a pair of names that do not ask for one format is written in the input format - known finding KF-C06-2)
        side_ = rng.choice(["-o", "-p"])
        other_ = next((g for g in outs if g[0] in ("-o", "-p") and g[0] != side_), None)
        if (other_ is not None and fmt.container_of(other_[1]) in ("", ".zst")
                and not other_[1].rsplit("/", 1)[-1].startswith(".")):  # (dnaio does not see an extension in '.fa')
            # (.gz/.bz2/.xz writers do not expose their name: the same known finding at one core)
            for g in outs:
                if g[0] == side_:
                    g[1] = "/dev/null"
            dims["devnull_mate"] = side_
    if layout == "interleaved" or out_interleaved:
        outs.append(["--interleaved"])
    v["outs"] = outs
    v["meta"]["interleaved_out"] = out_interleaved
    dims.update(out_interleaved=out_interleaved, stdout=to_stdout, fasta_flag=fasta_flag,
                out_paths=[g[1] for g in outs if g[0] in RECORD_OUT_FLAGS])
    # buffer must hold a whole pair in every layout
    s1, s2 = gen.record_sizes(v)
    floor = 2 * ((max(s1) if s1 else 8) + (max(s2) if s2 else 0)) + 16
    v["knobs"] = dict(base["knobs"])
    v["knobs"]["buffer_size"] = max(base["knobs"]["buffer_size"], floor)
    v["dims"] = dims
    v["cores"] = cores
    v["fasta_flag"] = fasta_flag
    return v


def read_all(case, res, name, viols):
    """(role, key) -> (format, r1, r2) plus format clause 2."""
    out = {}
    for d in C.destinations(case):
        try:
            f, r1, r2, observed = C.read_dest_ex(res, d)
            if observed == "none":
                continue
        except KeyError as e:
            viols.append(C.V("output-missing", f"{name}: output file {e} was not created"))
            continue
        except fmt.FormatError as e:
            if "sequence and quality lengths differ" in str(e) and C._optval(case["opts"], "--action") == "mask":
                # the per-read defect noted in DESIGN section 11 (indexed anchored adapters, --action=mask, a read
                # shorter than the adapter: more sequence than quality values); a FASTA reference hides it
                raise engine.Discard("mask-writes-record-with-unequal-lengths")
            viols.append(C.V("unreadable-output", f"{name}: {d['paths']}: {e}"))
            continue
        key = d["key"]
        if isinstance(key, list):
            key = tuple(key)
        out[(d["role"], key)] = (f, r1, r2, d)
        for p in d["paths"]:
            if p == C.DEVNULL:
                continue
            data = C.file_bytes(res, p)
            plain = fmt.decompress(p if p != C.STDOUT else "stdout", data)
            got = fmt.sniff(plain)
            if got is None:
                continue
            want = expected_format(p, case.get("fasta_flag", False), case["fmt"])
            if got != want:
                viols.append(C.V("format", f"{name}: {p} holds {got.upper()} records but the documented rule gives {want.upper()} (input {case['fmt']}, cores {case.get('cores')})"))
    return out


def evaluate(case, ctx):
    rng = random.Random(case["variant_seed"])
    refc = make_variant(case, rng, reference=True)
    files = gen.materialize(refc)
    ref = ctx.run("ref", gen.build_argv(refc, cores=1), files, parallel=False)
    if ref.exit == 2:
        raise engine.Discard("cli-rejected")
    if ref.exit != 0:
        raise engine.Discard("reference-run-failed")
    viols = []
    refout = read_all(refc, ref, "reference", viols)
    if any(v["clause"] == "unreadable-output" for v in viols):
        # the plain single-core run already wrote a record that is not valid FASTQ/FASTA: a defect of
        # a per-read function (seen: indexed anchored adapters on reads shorter than the adapter,
        # --action=mask), not of this property
        raise engine.Discard("reference-output-malformed")
    keys = []
    for k in range(case["n_variants"]):
        v = make_variant(case, rng)
        vf = gen.materialize(v)
        name = f"v{k}"
        res = ctx.run(name, gen.build_argv(v, cores=v["cores"]), vf, parallel=v["cores"] > 1, knobs=v["knobs"])
        hv = C.hang_violations(res, name)
        if hv:
            viols += hv
            continue
        if res.exit != 0:
            if C.is_buffer_too_small(res, v):
                continue
            viols.append(C.V("exit-status", f"{name}: exit status {res.exit} but the reference variant succeeded; dims {v['dims']}; stderr tail {res.stderr[-300:]!r}"))
            continue
        vout = read_all(v, res, f"{name} {v['dims']}", viols)
        total = 0
        for key, (f0, a1, a2, d0) in refout.items():
            if key not in vout:
                viols.append(C.V("destination-missing", f"{name}: destination {key} missing; dims {v['dims']}"))
                continue
            f1, b1, b2, d1 = vout[key]
            total += len(b1 if b1 is not None else b2)
            if C.DEVNULL in d1["paths"]:
                # the mate that went to /dev/null cannot be compared
                if b1 is None:
                    a1 = None
                if b2 is None:
                    a2 = None
            lvl = 3 if (f0 == "fastq" and f1 == "fastq") else 2
            for side, (x, y) in enumerate(((a1, b1), (a2, b2))):
                if x is None or y is None:
                    if (x is None) != (y is None):
                        viols.append(C.V("records", f"{name}: destination {key}: paired in one variant only"))
                    continue
                xs = [tuple(r[:lvl]) for r in x]
                ys = [tuple(r[:lvl]) for r in y]
                if xs != ys:
                    i = next((i for i, (p, q) in enumerate(zip(xs, ys)) if p != q), min(len(xs), len(ys)))
                    viols.append(C.V("records", f"{name}: {d1['paths']} R{side+1} differs from the reference variant at record {i} ({len(xs)} vs {len(ys)} records); dims {v['dims']}"))
        dm = v["dims"]
        ndiff = sum([dm["layout"] != refc["input"]["layout"], any(dm["containers"]), dm["cores"] > 1, dm["input_fmt"] != "fastq",
                     dm["out_interleaved"], dm["stdout"], any(fmt.container_of(p) for p in dm["out_paths"])])
        if ndiff >= 2 and total > 0:
            keys.append([dm["input_fmt"], dm["layout"], dm["containers"], [m > 1 for m in dm["members"]], dm["cores"] > 1,
                         dm["out_interleaved"], dm["stdout"], dm["fasta_flag"],
                         sorted({fmt.container_of(p) for p in dm["out_paths"]}),
                         sorted({fmt.strip_container(p).rsplit(".", 1)[-1] for p in dm["out_paths"]})])
    case["meta"]["variant_keys"] = keys
    seen, uniq = set(), []
    for x in viols:
        if x["clause"] not in seen:
            seen.add(x["clause"])
            uniq.append(x)
    return uniq


def nontrivial_key(case, ctx):
    k = case["meta"].get("variant_keys")
    return {"multi": k} if k else None


def signature(case, violation):
    return C.base_signature(case, violation)


def sample_view(case, ctx):
    v = C.sample_view(case, ctx)
    v["variant_keys"] = case["meta"].get("variant_keys")
    return v


def main(seed, tier, args):
    import sys

    n = args.cases or (1200 if tier == "quick" else 25000)
    budget = args.budget or (150 if tier == "quick" else 900)
    rc, ev = engine.run_batch(sys.modules[__name__], seed, tier, n, budget)
    c = ev["coverage"]
    print(f"C19 {tier}: {c['evaluations']} cases judged ({c['simulated_runs']} variant runs), {c['distinct_nontrivial']} distinct non-trivial, discards {c['discards_by_reason']}, wall {ev['wall_s']}s")
    return rc
