"""
Small executable reference model of cutadapt's filter chain and routing, evaluated on the
fully modified reads (as written by a 'shadow' run of the same case without any filter).
Transcribed from the documentation (guide: 'Filtering reads', '--pair-filter', demultiplexing),
not from steps.py.
"""
import math

from . import common as C

FILTER_OPT_FLAGS = {"-m", "-M", "--max-n", "--max-ee", "--max-aer", "--discard-casava"}
FILTER_OUT_FLAGS = {
    "--too-short-output", "--too-short-paired-output", "--too-long-output", "--too-long-paired-output",
    "--untrimmed-output", "--untrimmed-paired-output", "--discard-untrimmed", "--discard-trimmed",
}

NEAR = object()  # a float comparison too close to its threshold to be judged


def shadow_case_parts(case):
    """(opts, outs) of the shadow run: no filter, no trimmed/untrimmed option."""
    opts = [g for g in case["opts"] if g[0] not in FILTER_OPT_FLAGS]
    outs = [g for g in case["outs"] if g[0] not in FILTER_OUT_FLAGS]
    return opts, outs


def _lengths(s, paired):
    f = s.split(":")
    vals = [int(x) if x != "" else None for x in f]
    if not paired:
        return (vals[0], None)
    if len(vals) == 1:
        return (vals[0], vals[0])
    return (vals[0], vals[1])


def expected_errors(q):
    return sum(10 ** (-(ord(c) - 33) / 10) for c in q)


def _gt(value, thr):
    if math.isclose(value, thr, rel_tol=1e-4, abs_tol=1e-4):
        return NEAR
    return value > thr


def pred_too_many_n(seq, cutoff):
    n = seq.lower().count("n")
    if cutoff < 1.0:
        if len(seq) == 0:
            return False
        return _gt(n / len(seq), cutoff)
    return n > cutoff


def pred_casava(name):
    _, _, right = name.partition(" ")
    return right[1:4] == ":Y:"


def combine(mode, a, b):
    """a, b: per-read verdicts or None when that side has no criterion."""
    if b is None:
        return a
    if a is None:
        return b
    if a is NEAR or b is NEAR:
        # decide if the other side settles it
        if mode == "first":
            return a
        other = b if a is NEAR else a
        if other is NEAR:
            return NEAR
        if mode == "any":
            return True if other else NEAR
        return False if not other else NEAR
    if mode == "any":
        return a or b
    if mode == "both":
        return a and b
    return a  # first


class Model:
    def __init__(self, case):
        self.case = case
        self.paired = case["paired"]
        opts, outs = case["opts"], case["outs"]
        self.mode = C._optval(opts, "--pair-filter") or "any"
        m = C._optval(opts, "-m")
        M = C._optval(opts, "-M")
        self.minlen = _lengths(m, self.paired) if m is not None else None
        self.maxlen = _lengths(M, self.paired) if M is not None else None
        v = C._optval(opts, "--max-n")
        self.max_n = float(v) if v is not None else None
        fastq = case["fmt"] == "fastq"
        v = C._optval(opts, "--max-ee")
        self.max_ee = float(v) if (v is not None and fastq) else None
        v = C._optval(opts, "--max-aer")
        self.max_aer = float(v) if (v is not None and fastq) else None
        self.casava = C._optval(opts, "--discard-casava") is not None
        self.discard_trimmed = C._optval(outs, "--discard-trimmed") is not None
        self.discard_untrimmed = C._optval(outs, "--discard-untrimmed") is not None
        self.untrimmed_output = C._optval(outs, "--untrimmed-output") is not None
        meta = case["meta"]
        self.demux = meta["demux"]
        one_sided = self.paired and (meta["n_ad1"] == 0 or meta["n_ad2"] == 0)
        self.untrimmed_mode = "both" if (one_sided and (self.discard_untrimmed or self.untrimmed_output)) else self.mode
        self.has_short_file = C._optval(outs, "--too-short-output") is not None
        self.has_long_file = C._optval(outs, "--too-long-output") is not None

    def _both(self, f1, f2):
        """Apply per-read criteria to both mates with the pair filter mode."""
        if not self.paired:
            return f1
        return combine(self.mode, f1, f2)

    def fate(self, r1, r2, matched1, matched2, key=None):
        """
        r1, r2: (name, seq, qual) of the fully modified reads (r2 None for single-end).
        matched1/2: whether an adapter match was recorded on R1/R2.
        Returns (role, category) with role in too_short|too_long|discard|untrimmed|sink, or NEAR.
        """
        s1, s2 = r1[1], (r2[1] if r2 else None)
        if self.minlen is not None:
            a = (len(s1) < self.minlen[0]) if self.minlen[0] is not None else None
            b = (len(s2) < self.minlen[1]) if (self.paired and self.minlen[1] is not None) else None
            v = combine(self.mode, a, b) if self.paired else a
            if v:
                return ("too_short", "too_short")
        if self.maxlen is not None:
            a = (len(s1) > self.maxlen[0]) if self.maxlen[0] is not None else None
            b = (len(s2) > self.maxlen[1]) if (self.paired and self.maxlen[1] is not None) else None
            v = combine(self.mode, a, b) if self.paired else a
            if v:
                return ("too_long", "too_long")
        if self.max_n is not None:
            v = self._both(pred_too_many_n(s1, self.max_n), pred_too_many_n(s2, self.max_n) if self.paired else None)
            if v is NEAR:
                return NEAR
            if v:
                return ("discard", "too_many_n")
        if self.max_ee is not None:
            if r1[2] is None:
                return NEAR
            v = self._both(_gt(expected_errors(r1[2]), self.max_ee), _gt(expected_errors(r2[2]), self.max_ee) if self.paired else None)
            if v is NEAR:
                return NEAR
            if v:
                return ("discard", "too_many_expected_errors")
        if self.max_aer is not None:
            if r1[2] is None:
                return NEAR

            def aer(r):
                if len(r[1]) == 0:
                    return False
                return _gt(expected_errors(r[2]) / len(r[1]), self.max_aer)

            v = self._both(aer(r1), aer(r2) if self.paired else None)
            if v is NEAR:
                return NEAR
            if v:
                return ("discard", "too_high_average_error_rate")
        if self.casava:
            v = self._both(pred_casava(r1[0]), pred_casava(r2[0]) if self.paired else None)
            if v:
                return ("discard", "casava_filtered")
        if self.demux == "normal":
            if not matched1 and self.discard_untrimmed:
                return ("discard", "discard_untrimmed")
            return ("sink", None)
        if self.demux == "combinatorial":
            if self.discard_untrimmed and not (matched1 and matched2):
                return ("discard", "discard_untrimmed")
            return ("sink", None)
        if self.discard_trimmed:
            v = combine(self.mode, matched1, matched2) if self.paired else matched1
            if v:
                return ("discard", "discard_trimmed")
        elif self.discard_untrimmed or self.untrimmed_output:
            v = combine(self.untrimmed_mode, not matched1, not matched2) if self.paired else (not matched1)
            if v:
                return ("untrimmed", "discard_untrimmed") if self.untrimmed_output else ("discard", "discard_untrimmed")
        return ("sink", None)
