"""
C05 -- paired-end outputs stay synchronised and pairs are filtered as a unit.
"""
import re

from sim import engine, fmt, gen
from . import common as C
from . import model as M

ID = "C05"
LEVEL = "exploration"
RULE = (
    "Seeded paired-end cases (two files or interleaved, in and out; R1/R2 of very different lengths so the two input "
    "files hit the chunk limit at different records; adapters on R1 only / R2 only / both; every --pair-filter; LEN, "
    "LEN:LEN2, LEN: and :LEN2 bounds; all redirect pairs; --pair-adapters; demultiplexing), each run serially and with "
    "2-5 simulated workers under a seeded schedule, plus a serial 'shadow' run without any filter that exposes the fully "
    "modified pairs. Oracle: R1/R2 files in lock step with equal ids; each pair in exactly one destination; the "
    "destination of every pair equals the prediction of a small reference model of the documented filter chain "
    "evaluated on the shadow records (match status taken from a --rename stamp); --pair-adapters same-rank rule. "
    "Non-trivial = pairs reached >= 2 different destinations/fates; distinct = distinct (option-flag signature, set of "
    "fates, abstract schedule)."
)
ASSUMPTIONS = [
    "the reference model of the filter chain is transcribed from the documentation; float criteria within 1e-4 of their threshold are not judged",
    "whether R1/R2 had an adapter match is read from the '--rename {id} ... m1={r1.adapter_name} m2={r2.adapter_name}' stamp, i.e. from cutadapt's own renamer",
    "simulation kernel/SimFS as for C06",
]

TEMPLATE = ("{id} {comment} m1={adapter_name}", "{id} {comment} m1={r1.adapter_name} m2={r2.adapter_name}")
STAMP = re.compile(r"m1=(\S+) m2=(\S+)$")
MODIFIER_FLAGS = {"-u", "-U", "-q", "-Q", "--nextseq-trim", "--poly-a", "-l", "-L", "--trim-n", "--length-tag",
                  "--strip-suffix", "--zero-cap", "-x", "-y"}


def generate(rng, tier):
    return gen.gen_case(rng, {
        "paired": True, "p_filters": 0.8, "p_redirect": 0.6, "p_untrimmed_opts": 0.6, "p_demux": 0.15,
        "p_pair_adapters": 0.15, "p_revcomp": 0.08, "p_info": 0.05, "p_rename": 0.0, "p_minimal_report": 0.05,
        "rename_template": TEMPLATE, "allow_fasta_names_for_fastq": False, "p_stdout": 0.08, "json": False, "p_devnull": 0.1, "p_empty_adapter_file": 0.25, "p_quiet": 0.04, "p_debug": 0.03,
    })


def collect(case, res, name, viols):
    """id -> dict(role, key, r1, r2, path) over all destinations of one run; appends sync violations."""
    where = {}
    input_ids = {r[0] for r in case["records"]}
    for d in C.destinations(case):
        try:
            f, r1, r2, observed = C.read_dest_ex(res, d)
        except KeyError as e:
            viols.append(C.V("output-missing", f"{name}: output file {e} was not created"))
            continue
        except fmt.FormatError as e:
            viols.append(C.V("unparseable-output", f"{name}: {d['paths']}: {e}"))
            continue
        if observed == "none":
            where.setdefault("__unobserved__", set()).add(d["role"])
            continue
        if observed in ("r1", "r2"):
            # the mate file is /dev/null: this file alone must hold one record per pair, of its own side
            side = 3 if observed == "r1" else 5
            byid = {r[0]: r for r in case["records"]}
            last = -1
            for rec in (r1 if observed == "r1" else r2):
                i = C.rid(rec[0])
                if i not in input_ids:
                    viols.append(C.V("foreign-id", f"{name}: {d['paths']}: {rec[0]!r} is not an input pair"))
                    continue
                n = int(i[2:])
                if n <= last:
                    viols.append(C.V("desync", f"{name}: {d['paths']}: record {rec[0]!r} follows pair {last}: the file next to /dev/null does not hold one record per pair in input order"))
                    break
                last = n
                if i in where:
                    viols.append(C.V("pair-not-unit", f"{name}: pair {i} is in {where[i]['path']} and in {d['paths']}"))
                    continue
                where[i] = {"role": d["role"], "key": d["key"], "r1": rec if observed == "r1" else None,
                            "r2": rec if observed == "r2" else None, "path": str(d["paths"])}
            continue
        if r2 is None:
            continue
        if len(r1) != len(r2):
            viols.append(C.V("desync", f"{name}: {d['paths']}: {len(r1)} records in R1 but {len(r2)} in R2"))
            continue
        last = -1
        for k, (a, b) in enumerate(zip(r1, r2)):
            ia, ib = C.rid(a[0]), C.rid(b[0])
            if ia != ib:
                viols.append(C.V("desync", f"{name}: {d['paths']}: record {k}: R1 is {a[0]!r} but R2 is {b[0]!r}"))
                break
            if ia not in input_ids:
                viols.append(C.V("foreign-id", f"{name}: {d['paths'][0]}: {a[0]!r} is not an input pair"))
                continue
            n = int(ia[2:])
            if n <= last:
                viols.append(C.V("order", f"{name}: {d['paths'][0]}: pair {ia} is out of input order"))
            last = n
            if ia in where:
                viols.append(C.V("pair-not-unit", f"{name}: pair {ia} is in {where[ia]['path']} and in {d['paths'][0]}"))
                continue
            where[ia] = {"role": d["role"], "key": d["key"], "r1": a, "r2": b, "path": d["paths"][0]}
    return where


def stamps(rec):
    m = STAMP.search(rec[0])
    if not m:
        return None
    return m.group(1), m.group(2)


def judge(case, mdl, shadow, res, name):
    viols = []
    where = collect(case, res, name, viols)
    if viols:
        return viols
    unobserved = where.pop("__unobserved__", set())
    meta = case["meta"]
    fates = set()
    for rec in case["records"]:
        i = rec[0]
        sh = shadow.get(i)
        if sh is None:
            continue
        st = stamps(sh["r1"])
        if st is None:
            continue
        m1, m2 = st[0] != "no_adapter", st[1] != "no_adapter"
        pred = mdl.fate(sh["r1"], sh["r2"], m1, m2)
        if pred is M.NEAR:
            continue
        role, cat = pred
        fates.add(cat or "sink")
        act = where.get(i)
        if role == "too_short" and not mdl.has_short_file:
            role = "discard"
        if role == "too_long" and not mdl.has_long_file:
            role = "discard"
        if role == "discard":
            if act is not None:
                viols.append(C.V("pair-decision", f"{name}: pair {i} should be discarded as {cat} (mode {mdl.mode}/{mdl.untrimmed_mode}; lengths {len(sh['r1'][1])}/{len(sh['r2'][1])}; stamps {st}) but is in {act['path']}"))
            continue
        if act is None and role in unobserved:
            continue  # went to /dev/null
        if act is None:
            viols.append(C.V("pair-decision", f"{name}: pair {i} should go to '{role}' (lengths {len(sh['r1'][1])}/{len(sh['r2'][1])}; stamps {st}; mode {mdl.mode}/{mdl.untrimmed_mode}) but is in no output file"))
            continue
        if act["role"] != role:
            viols.append(C.V("pair-decision", f"{name}: pair {i} should go to '{role}' ({cat}; lengths {len(sh['r1'][1])}/{len(sh['r2'][1])}; stamps {st}; mode {mdl.mode}/{mdl.untrimmed_mode}) but is in {act['path']} ({act['role']})"))
            continue
        if role == "sink" and meta["demux"]:
            if meta["demux"] == "normal":
                exp = st[0] if m1 else None
            else:
                exp = (st[0] if m1 else None, st[1] if m2 else None)
            got = act["key"]
            if isinstance(got, list):
                got = tuple(got)
            if got != exp:
                viols.append(C.V("demux-routing", f"{name}: pair {i} with stamps {st} is in {act['path']}"))
        if (act["r1"] is not None and tuple(act["r1"]) != tuple(sh["r1"])) or (act["r2"] is not None and tuple(act["r2"]) != tuple(sh["r2"])):
            viols.append(C.V("record-content", f"{name}: pair {i} in {act['path']} differs from the same pair without filters"))
    # --pair-adapters: same rank or neither
    if meta["pair_adapters"]:
        plain = not any(g[0] in MODIFIER_FLAGS for g in case["opts"])
        action = C._optval(case["opts"], "--action") or "trim"
        byid = {r[0]: r for r in case["records"]}
        for i, w in where.items():
            if w["r1"] is None or w["r2"] is None:
                continue
            st = stamps(w["r1"])
            if st is None:
                continue
            a, b = st
            if (a == "no_adapter") != (b == "no_adapter"):
                viols.append(C.V("pair-adapters", f"{name}: pair {i}: only one mate was trimmed (stamps {st})"))
            elif a != "no_adapter":
                if a[2:] != b[2:]:
                    viols.append(C.V("pair-adapters", f"{name}: pair {i}: mates trimmed by adapters of different rank ({a}, {b})"))
            elif plain:  # (also with --action=lowercase: unlike AdapterCutter, nothing is upper-cased)
                src = byid[i]
                if w["r1"][1] != src[3] or w["r2"][1] != src[5]:
                    viols.append(C.V("pair-adapters", f"{name}: pair {i}: no adapter pair matched but the mates were changed"))
    case["meta"]["fates"] = sorted(set(case["meta"].get("fates") or []) | fates)
    return viols


def witness_consistency(case, shadow):
    """
    The '--rename' stamps are cutadapt's own record of which mate had a match. When adapter
    trimming is the only modification (default action, one round), a mate with a recorded match
    must differ from both input mates and a mate without one must equal one of them -- so a
    match recorded on the wrong mate's info object cannot hide behind its own stamp.
    """
    if any(g[0] in MODIFIER_FLAGS for g in case["opts"]):
        return []
    if (C._optval(case["opts"], "--action") or "trim") != "trim" or C._optval(case["opts"], "-n"):
        return []
    out = []
    byid = {r[0]: r for r in case["records"]}
    for i, w in shadow.items():
        st = stamps(w["r1"])
        if st is None:
            continue
        src = byid[i]
        revcomp = case["meta"].get("revcomp")
        for side, rec, stamp in ((1, w["r1"], st[0]), (2, w["r2"], st[1])):
            own = src[3 if side == 1 else 5]
            other = src[5 if side == 1 else 3]
            if revcomp:
                # the mates may have changed places; very short reads could coincide by chance
                if len(rec[1]) < 8:
                    continue
                unchanged = rec[1] in (own, other)
            else:
                unchanged = rec[1] == own
            matched = stamp != "no_adapter"
            if matched == unchanged and not (matched and len(src[3 if side == 1 else 5]) == 0):
                out.append(C.V("match-on-wrong-mate", f"pair {i}: R{side} is {'unchanged' if unchanged else 'trimmed'} but its recorded last match is {stamp}"))
                return out
    return out


_SWAP = {"-a": "-A", "-g": "-G", "-b": "-B", "-A": "-a", "-G": "-g", "-B": "-b"}
_SEARCH = {"-e", "-O", "--no-indels", "--match-read-wildcards", "-N", "--action", "--pair-adapters", "--no-index"}


def pair_adapter_symmetry(case, ctx):
    """
    --pair-adapters treats the two reads alike: with the files and the -a/-A lists exchanged, R1 must come out
    as R2 did and R2 as R1 did (every action, incl. retain and mask, applied to each mate at its own match).
    Both runs use only the adapter and search options, on plain two-file input.
    """
    import copy

    ext = ".fastq" if case["fmt"] == "fastq" else ".fasta"
    a = copy.deepcopy(case)
    a["opts"] = [g for g in case["opts"] if g[0] in _SWAP or g[0] in _SEARCH]
    a["outs"] = [["-o", "/simfs/sym1" + ext], ["-p", "/simfs/sym2" + ext]]
    a["input"] = {"layout": "two", "ext": ext, "containers": ["", ""], "members": [1, 1], "comments": 0}
    a["aux_files"] = {}
    if any(g[1].startswith("file:") for g in a["opts"] if g[0] in _SWAP):
        return []
    b = copy.deepcopy(a)
    for r in b["records"]:
        r[1], r[2] = r[2], r[1]
        r[3], r[5] = r[5], r[3]
        r[4], r[6] = r[6], r[4]
    b["opts"] = [[_SWAP.get(g[0], g[0])] + g[1:] for g in a["opts"]]
    # the adapters of one rank must stay paired: -a list <-> -A list keeps the order within each list
    res = []
    for name, c in (("sym-a", a), ("sym-b", b)):
        r = ctx.run(name, gen.build_argv(c, cores=1), gen.materialize(c), parallel=False)
        if r.exit != 0:
            return []
        try:
            res.append(C.read_dest(r, {"paths": ["/simfs/sym1" + ext, "/simfs/sym2" + ext], "interleaved": False}))
        except (KeyError, fmt.FormatError):
            return []
    (_, a1, a2), (_, b1, b2) = res
    out = []
    for k, (x1, x2, y1, y2) in enumerate(zip(a1, a2, b1, b2)):
        if (x1[1], x1[2]) != (y2[1], y2[2]) or (x2[1], x2[2]) != (y1[1], y1[2]):
            out.append(C.V("pair-adapters", f"pair {C.rid(x1[0])}: with the reads and the -a/-A lists exchanged the mates come out differently: "
                                              f"R1 {x1[1]!r} / R2 {x2[1]!r} versus R2' {y2[1]!r} / R1' {y1[1]!r}"))
            break
    ctx.results.pop("sym-a", None)
    ctx.results.pop("sym-b", None)
    return out


def evaluate(case, ctx):
    files = engine.gen_files(case)
    case["meta"]["fates"] = []
    sopts, souts = M.shadow_case_parts(case)
    sh = ctx.run("shadow", gen.build_argv(case, cores=1, opts=sopts, outs=souts), files, parallel=False)
    if sh.exit == 2:
        raise engine.Discard("cli-rejected")
    if sh.exit != 0:
        raise engine.Discard("shadow-run-failed")
    shadow_case = dict(case)
    shadow_case["outs"] = souts
    v0 = []
    shadow = collect(shadow_case, sh, "shadow", v0)
    if any(v["clause"] == "unparseable-output" for v in v0):
        raise engine.Discard("serial-output-malformed")  # per-read defect, not this property
    if v0:
        return v0
    if len(shadow) != len(case["records"]):
        return [C.V("shadow-incomplete", f"shadow run without filters wrote {len(shadow)} of {len(case['records'])} pairs")]
    v1 = witness_consistency(case, shadow)
    if v1:
        return v1
    if case["meta"].get("pair_adapters"):
        v2 = pair_adapter_symmetry(case, ctx)
        if v2:
            return v2
    mdl = M.Model(case)
    ref = C.run_serial(case, ctx, files)
    if ref.exit == 2:
        raise engine.Discard("cli-rejected")
    if ref.exit != 0:
        raise engine.Discard("reference-run-failed")
    viols = judge(case, mdl, shadow, ref, "serial")
    if any(v["clause"] == "unparseable-output" for v in viols):
        raise engine.Discard("serial-output-malformed")
    par = C.run_parallel(case, ctx, files)
    hv = C.hang_violations(par, "par")
    if hv:
        return viols + hv
    if par.exit != 0:
        if C.is_buffer_too_small(par, case):
            raise engine.Discard("buffer-too-small")
        viols.append(C.V("exit-status", f"par: exit status {par.exit}; stderr tail {par.stderr[-300:]!r}"))
    else:
        viols += judge(case, mdl, shadow, par, "par")
    seen, uniq = set(), []
    for v in viols:
        if v["clause"] not in seen:
            seen.add(v["clause"])
            uniq.append(v)
    return uniq


def nontrivial_key(case, ctx):
    f = case["meta"].get("fates") or []
    if len(f) < 2:
        return None
    return [C.option_signature(case), f, repr(ctx.abstract[-1]) if ctx.abstract else None]


def signature(case, violation):
    s = C.base_signature(case, violation)
    s["pair_filter"] = case["meta"].get("pair_filter")
    s["pair_adapters"] = case["meta"].get("pair_adapters")
    return s


sample_view = C.sample_view


def main(seed, tier, args):
    import sys

    n = args.cases or (3000 if tier == "quick" else 60000)
    budget = args.budget or (150 if tier == "quick" else 900)
    rc, ev = engine.run_batch(sys.modules[__name__], seed, tier, n, budget)
    c = ev["coverage"]
    print(f"C05 {tier}: {c['evaluations']} cases judged, {c['distinct_nontrivial']} distinct non-trivial, discards {c['discards_by_reason']}, wall {ev['wall_s']}s")
    return rc
