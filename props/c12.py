"""
C12 -- broken input makes the run fail visibly; it never hangs or loses reads silently.
Fault enumeration: storage faults x crash points x layouts x worker counts x schedules.
"""
import copy
import hashlib
import json

from sim import engine, fmt, gen
from . import common as C

ID = "C12"
LEVEL = "fault_enumeration"
RULE = (
    "Base files (FASTQ single / two-file paired / interleaved, plain, gzip, multi-member gzip; small random command "
    "lines) are generated from the seed; for the enumerated bases EVERY truncation offset of every input file (plain "
    "and compressed bytes) and every single-record corruption kind at EVERY record index is applied, each run with the "
    "serial runner and with 2-4 simulated workers under a seeded schedule; on top, sampled two-fault sequences, random "
    "configurations, gzip bit flips and buffer sizes that put the fault in the first/middle/last chunk. Non-trivial = "
    "the fault actually changed the stored bytes; distinct = distinct (fault kind, position class, input layout, "
    "container, verdict class, who raised the error) tuples."
)
ASSUMPTIONS = [
    "input classification (well-formed / malformed / unspecified) by an independent strict FASTQ reader and the "
    "standard library's zlib; 'unspecified' inputs (FASTA bodies, files that start with '>' after corruption, gzip "
    "header flips) are only checked for hangs",
    "faults are applied to the stored bytes before the run (truncated download, torn write, bit rot); no EIO/ENOSPC/"
    "signals/worker kills are injected because the property says nothing about them",
    "processes are simulated (threads parked at IPC operations, pickled state); a hang is the state 'main unfinished "
    "and no task enabled'",
]

WELL, MAL, UNSPEC = "well-formed", "malformed", "unspecified"

_MAGIC = [(b"\x1f\x8b", ".gz"), (b"BZh", ".bz2"), (b"\xfd7zXZ\x00", ".xz"), (b"\x28\xb5\x2f\xfd", ".zst")]


def _plain_of(path, data):
    c = fmt.container_of(path)
    if not c:
        for magic, ext in _MAGIC:
            if data.startswith(magic):
                c = ext
                break
    if not c:
        return data
    return fmt.decompress("x" + c, data)


def _strict(plain):
    """-> (class, records or None, reason)"""
    if not plain:
        return WELL, [], "empty"
    c = plain[:1]
    if plain[:4] == b"BAM\1":
        try:
            return WELL, fmt.parse_bam_strict(plain), ""
        except fmt.FormatError as e:
            return MAL, None, str(e)
    if c in (b">", b"#"):
        return UNSPEC, None, "content looks like FASTA"
    if c != b"@":
        return MAL, None, f"starts with {c!r}"
    try:
        return WELL, fmt.parse_fastq_strict(plain), ""
    except fmt.FormatError as e:
        # a file ending in '+\n' after an empty sequence line may be read as a record with an
        # empty quality line and no final newline: the grammar is ambiguous there
        try:
            fmt.parse_fastq_strict(plain + b"\n")
            return UNSPEC, None, "ambiguous empty last line"
        except fmt.FormatError:
            pass
        return MAL, None, str(e)


def _ids_match(a, b):
    """dnaio's rule (record_names_match): the ids up to the first white space are equal, where
    a final '1', '2' or '3' is ignored when both ids end in one of them ('/1' '/2', '.1' '.2')."""
    i = a.split(None, 1)[0] if a.split() else ""
    j = b.split(None, 1)[0] if b.split() else ""
    if i and j and i[-1] in "123" and j[-1] in "123":
        i, j = i[:-1], j[:-1]
    return i == j


def classify(case, files):
    """Classify the (faulted) input. Returns (class, n_records or None, reason)."""
    paths = gen.input_paths(case)
    plains = []
    unnamed = bool(case["input"].get("stdin") or case["input"].get("devfd"))
    for p in paths:
        try:
            # standard input and /dev/fd pipes have no name: the container is recognised by content only,
            # and no bytes at all are an empty input
            plains.append(_plain_of("unnamed" if unnamed else p, files[p]))
        except fmt.FormatError as e:
            return MAL, None, f"container: {e}"
    if case["fmt"] != "fastq":
        return UNSPEC, None, "FASTA input"
    parsed = [_strict(pl) for pl in plains]
    if any(c == MAL for c, _, _ in parsed):
        return MAL, None, "; ".join(r for c, _, r in parsed if c == MAL)
    if any(c == UNSPEC for c, _, _ in parsed):
        return UNSPEC, None, "; ".join(r for c, _, r in parsed if c == UNSPEC)
    layout = case["input"]["layout"]
    if layout == "two":
        r1, r2 = parsed[0][1], parsed[1][1]
        if len(r1) != len(r2):
            return MAL, None, f"{len(r1)} records in R1 but {len(r2)} in R2"
        if (len(plains[0]) == 0) != (len(plains[1]) == 0):
            return MAL, None, "one file empty"
        for a, b in zip(r1, r2):
            if not _ids_match(a[0], b[0]):
                return MAL, None, f"mate names differ: {a[0]!r} / {b[0]!r}"
        return WELL, len(r1), ""
    if layout == "interleaved":
        r = parsed[0][1]
        if len(r) % 2:
            return MAL, None, "odd number of records in interleaved file"
        for a, b in zip(r[0::2], r[1::2]):
            if not _ids_match(a[0], b[0]):
                return MAL, None, f"mate names differ: {a[0]!r} / {b[0]!r}"
        return WELL, len(r) // 2, ""
    return WELL, len(parsed[0][1]), ""


# --------------------------------------------------------------------------- generation

PROFILE = dict(
    fastq=True,
    n_records=(4, 24),
    maxlen=30,
    in_containers=("", "", "", ".gz", ".gz", ".bz2", ".xz"),
    out_containers=("", "", ".gz"),
    p_adapters=0.8, p_modifiers=0.2, p_filters=0.4, p_redirect=0.5, p_untrimmed_opts=0.3,
    p_demux=0.12, p_info=0.15, p_rename=0.05, p_revcomp=0.05, p_pair_adapters=0.03,
    p_minimal_report=0.05, p_stdout=0.1, workers=(2, 4), simple_adapters=True,
    p_big=0.004, p_huge=0.0, p_long_read=0.0,  # few large inputs, and never with a one-pair buffer (see _bias_buffer)
    allow_fasta_names_for_fastq=False, p_qbase64=0.03, p_quiet=0.04, p_debug=0.03, p_bam=0.06, p_devfd=0.05,
)


def gen_base(rng, small=False, force=None):
    prof = dict(PROFILE)
    if small:
        prof.update(n_records=(6, 12), maxlen=16)
    if force:
        prof.update(force)
    case = gen.gen_case(rng, prof)
    return case


def _no_preexisting_outputs(case):
    # a run that fails before it opens its outputs leaves old files as they were: nothing to judge there
    case["knobs"]["preexist"] = False
    return case


def record_offsets(case, file_index):
    """Byte offsets of record starts in the plain stream of input file `file_index`."""
    s1, s2 = gen.record_sizes(case)
    layout = case["input"]["layout"]
    if layout == "interleaved":
        sizes = [x for ab in zip(s1, s2) for x in ab]
    elif file_index == 1:
        sizes = s2
    else:
        sizes = s1
    offs = [fmt.bam_header_size() if case["input"].get("bam") else 0]
    for s in sizes:
        offs.append(offs[-1] + s)
    return offs


RECORD_FAULTS = [
    ("drop_record", {}),
    ("bad_byte", {"line": 1, "pos": 2}), ("bad_byte", {"line": 3, "pos": 0}),
    ("qual_len", {"delta": -1}), ("qual_len", {"delta": 2}),
    ("drop_line", {"line": 0}), ("drop_line", {"line": 1}), ("drop_line", {"line": 2}), ("drop_line", {"line": 3}),
    ("dup_line", {"line": 0}), ("dup_line", {"line": 2}), ("dup_line", {"line": 3}),
    ("blank_line", {"line": 0}), ("blank_line", {"line": 2}),
    ("bad_lead", {"which": 0, "char": "x"}), ("bad_lead", {"which": 2, "char": "-"}),
    ("mate_rename", {}),
    ("flip_base", {"pos": 3}),
]


def enumerate_faults(case):
    """The complete single-fault plan of a base: every truncation offset of every file, and
    every record-level corruption at every record index (and every mate_missing count)."""
    files = gen.materialize(case)
    paths = gen.input_paths(case)
    n = len(case["records"])
    plan = []
    for fi, p in enumerate(paths):
        for off in range(len(files[p])):
            plan.append([{"kind": "truncate", "file": fi, "offset": off}])
    if case["input"].get("bam"):
        # the BAM stream cut at every offset inside intact gzip members
        for off in range(len(gen.plain_streams(case)[0])):
            plan.append([{"kind": "truncate_plain", "file": 0, "offset": off}])
        return plan
    nrec = n * (2 if case["input"]["layout"] == "interleaved" else 1)
    for fi in range(len(paths)):
        for rec in range(nrec):
            for kind, extra in RECORD_FAULTS:
                if kind in ("mate_rename", "drop_record") and not case["paired"]:
                    continue
                plan.append([dict(kind=kind, file=fi, rec=rec, **extra)])
        if case["paired"]:
            for k in range(1, min(n, 3) + 1):
                plan.append([{"kind": "mate_missing", "file": fi, "k": k}])
    return plan


def random_fault(rng, case, files):
    paths = gen.input_paths(case)
    fi = rng.randrange(len(paths))
    data = files[paths[fi]]
    n = len(case["records"]) * (2 if case["input"]["layout"] == "interleaved" else 1)
    r = rng.random()
    cont = case["input"]["containers"][fi]
    bam = bool(case["input"].get("bam"))
    if not bam and n and rng.random() < 0.05:
        # the file ends in zero bytes: padded to a block boundary, or only partly written into a preallocated file
        offs = record_offsets(case, fi)
        keep = offs[-1] if rng.random() < 0.4 else rng.choice(offs)
        return {"kind": "zero_fill", "file": fi, "offset": keep, "to_full_size": rng.random() < 0.5, "block": rng.choice([512, 512, 4096])}
    if (bam and r < 0.65) or (cont != "" and r < 0.08):
        # the data were cut before they were compressed: the container is intact
        plain = gen.style_plain(case, gen.plain_streams(case)[fi])
        if n and rng.random() < 0.5:
            offs = record_offsets(case, fi)
            off = max(0, min(len(plain), rng.choice(offs) + rng.choice([-2, -1, 0, 0, 1, 2])))
        else:
            off = rng.randrange(len(plain) + 1) if plain else 0
        return {"kind": "truncate_plain", "file": fi, "offset": off}
    if bam and r >= 0.9 and len(data) > 20 and case["input"]["members"][fi] == 1:
        return {"kind": "gz_flip", "file": fi, "offset": rng.randrange(10, len(data)), "bit": rng.randrange(8)}
    if r < 0.35 or n == 0 or bam:
        # bias: on a record boundary / just around it / anywhere
        if cont == "" and rng.random() < 0.5 and n:
            offs = record_offsets(case, fi)
            off = max(0, min(len(data), rng.choice(offs) + rng.choice([-2, -1, 0, 0, 1, 2])))
        else:
            off = rng.randrange(len(data) + 1) if data else 0
        return {"kind": "truncate", "file": fi, "offset": off}
    if r < 0.5 and cont == ".gz" and case["input"]["members"][fi] == 1 and len(data) > 20:
        return {"kind": "gz_flip", "file": fi, "offset": rng.randrange(10, len(data)), "bit": rng.randrange(8)}
    kind, extra = rng.choice(RECORD_FAULTS)
    if kind in ("mate_rename", "drop_record") and not case["paired"]:
        kind, extra = "qual_len", {"delta": -1}
    if case["paired"] and rng.random() < 0.15:
        return {"kind": "mate_missing", "file": fi, "k": rng.randint(1, 3)}
    # first / middle / last record bias
    rec = rng.choice([0, n - 1, rng.randrange(n), rng.randrange(n)])
    return dict(kind=kind, file=fi, rec=rec, **extra)


_TABLE = {}


def _table(seed, tier):
    """index -> (base number, fault list) for the enumerated part; built once per process."""
    key = (seed, tier)
    if key in _TABLE:
        return _TABLE[key]
    forces = [
        {"paired": False, "in_containers": ("",)},
        {"paired": True, "in_containers": ("",), "force_layout": "two"},
        {"paired": True, "in_containers": ("",), "force_layout": "interleaved"},
        {"paired": False, "in_containers": (".gz",)},
        {"paired": True, "in_containers": (".gz",), "force_layout": "two"},
        {"paired": False, "in_containers": (".gz",), "force_members": 3},
        {"paired": False, "p_bam": 1.0},
    ]
    n_bases = 2 if tier == "quick" else len(forces) * 3
    bases = []
    table = []
    for b in range(n_bases):
        f = dict(forces[b % len(forces)])
        rng = engine.case_rng(seed, "C12base", b)
        case = None
        for attempt in range(50):
            cand = gen_base(rng, small=True, force={k: v for k, v in f.items() if not k.startswith("force_")})
            if "force_layout" in f and cand["input"]["layout"] != f["force_layout"]:
                continue
            if "force_members" in f:
                cand["input"]["members"] = [f["force_members"]] * len(cand["input"]["members"])
            if len(cand["records"]) >= 4:
                case = cand
                break
        if case is None:
            case = cand
        bases.append(case)
        for fl in enumerate_faults(case):
            table.append((b, fl))
    _TABLE[key] = (bases, table)
    return _TABLE[key]


def generate_indexed(seed, index, tier, rng):
    bases, table = _table(seed, tier)
    if index < len(table):
        b, fl = table[index]
        case = copy.deepcopy(bases[b])
        case["faults"] = fl
        case["meta"]["enumerated_base"] = b
        case["knobs"] = gen.gen_knobs(rng, case, PROFILE)
        _bias_buffer(rng, case)
        return _no_preexisting_outputs(case)
    # sampled part
    case = gen_base(rng, small=rng.random() < 0.5)
    files = gen.materialize(case)
    nf = 1 if rng.random() < 0.8 else 2
    case["faults"] = [random_fault(rng, case, files) for _ in range(nf)]
    _bias_buffer(rng, case)
    return _no_preexisting_outputs(case)


def _bias_buffer(rng, case):
    """Half of the time pick a buffer size that yields several chunks."""
    if rng.random() < 0.5 and not case["meta"].get("big"):
        s1, s2 = gen.record_sizes(case)
        per = [a + b for a, b in zip(s1, s2)] if case["input"]["layout"] == "interleaved" else ([max(a, b) for a, b in zip(s1, s2)] if s2 else s1)
        if per:
            case["knobs"]["buffer_size"] = 2 * max(per) + 8 + rng.randint(0, max(per))


# --------------------------------------------------------------------------- evaluation

_REF_CACHE = {}


def _reference(case, ctx):
    """Serial run on the un-faulted input (cached per base inside a worker process)."""
    base = {k: case[k] for k in ("records", "input", "member_seed", "opts", "outs", "fmt", "paired")}
    key = hashlib.sha1(json.dumps(base, sort_keys=True).encode()).hexdigest()
    if key not in _REF_CACHE:
        if len(_REF_CACHE) > 64:
            _REF_CACHE.clear()
        c0 = copy.deepcopy(case)
        c0["faults"] = []
        files = gen.materialize(c0)
        sub = engine.Ctx(c0)
        ref = C.run_serial(c0, sub, files, name="orig")
        ctx.steps += sub.steps
        ctx.sim_runs += 1
        _REF_CACHE[key] = ref
    return _REF_CACHE[key]


def fault_record_index(case, files_orig, files_faulted):
    """
    Index of the first input record (pair) the faults can have touched, found by comparing
    the plain streams before and after the faults: records that end inside the common prefix
    are untouched. None = no bound needed (nothing changed, or a truncated compressed stream,
    whose decodable part is a prefix of the original); -1 = no record can be trusted (gz_flip:
    anything after the flip may decode to garbage).
    """
    il = case["input"]["layout"] == "interleaved"
    paths = gen.input_paths(case)
    if any(f["kind"] == "gz_flip" for f in case["faults"]):
        return -1
    idx = None
    for fi, p in enumerate(paths):
        if files_orig[p] == files_faulted[p]:
            continue
        po = _plain_of(p, files_orig[p])
        try:
            pf = _plain_of(p, files_faulted[p])
        except fmt.FormatError:
            # damaged container: only what a streaming decoder can still get out of it matters
            cont = fmt.container_of(p) or next((e for m, e in _MAGIC if files_faulted[p].startswith(m)), "")
            pf = fmt.decompress_prefix(cont, files_faulted[p])
            if po.startswith(pf):
                continue  # a clean prefix of the original: no bound needed
        if po == pf:
            continue
        L = C.first_diff(po, pf)
        offs = record_offsets(case, fi)
        n_complete = sum(1 for o in offs[1:] if o <= L)
        i = n_complete // 2 if il else n_complete
        idx = i if idx is None else min(idx, i)
    return idx


def judge_run(case, res, name, cls, n_in, ref, bound):
    out = []
    out += C.hang_violations(res, name)
    if out:
        return out
    if cls == MAL:
        if res.exit == 0:
            out.append(C.V("malformed-accepted", f"{name}: malformed input but exit status 0"))
        elif not res.error_reported():
            out.append(C.V("no-error-message", f"{name}: exit status {res.exit} without an error message; stderr: {res.stderr[-300:]!r}"))
    dests = C.destinations(case)
    ref_ok = ref is not None and ref.exit == 0
    seen = {}
    total_written = 0
    for d in dests:
        try:
            f, r1, r2 = C.read_dest(res, d)
        except KeyError as e:
            if res.exit == 0:
                out.append(C.V("output-missing", f"{name}: output file {e} was not created"))
            continue
        except fmt.FormatError as e:
            if "sequence and quality lengths differ" in str(e) and C._optval(case["opts"], "--action") == "mask":
                # the per-read defect of DESIGN section 11 (--action=mask with indexed anchored adapters), not this property
                raise engine.Discard("mask-writes-record-with-unequal-lengths")
            out.append(C.V("incomplete-output", f"{name}: {d['paths']}: {e}"))
            continue
        if r2 is not None and len(r1) != len(r2):
            out.append(C.V("incomplete-output", f"{name}: {d['paths']}: {len(r1)} R1 records but {len(r2)} R2 records"))
            continue
        total_written += len(r1)
        ids = [C.rid(r[0]) for r in r1]
        idx = [int(i[2:]) if i else -1 for i in ids]
        # after a flipped bit inside a compressed stream the decoded text itself may be garbage
        # (changed ids included): order and uniqueness are only judged for the other faults
        # order and uniqueness are judged for the records in front of the first faulted one: behind it
        # the mates of a pair may come from different input pairs (undetectable until the files end
        # when the ids differ in a final 1/2/3 only), and --revcomp may then swap them
        # (a record whose id is not one of ours any more - both mates renamed alike - is behind the fault)
        cut = next((k for k, i in enumerate(idx) if bound is not None and bound != -1 and (i >= bound or i < 0)), len(idx))
        if bound != -1 and any(b <= a for a, b in zip(idx[:cut], idx[1:cut])):
            out.append(C.V("output-order", f"{name}: {d['paths'][0]}: records not in input order: {ids[:12]}"))
        for i in ids[:cut]:
            if i in seen and bound != -1:
                out.append(C.V("duplicate-record", f"{name}: {i} written to {seen[i]} and {d['paths'][0]}"))
            seen[i] = d["paths"][0]
        # prefix of the reference run on the un-faulted input
        if ref_ok and bound != -1:
            try:
                _, q1, q2 = C.read_dest(ref, d)
            except (KeyError, fmt.FormatError):
                continue
            for side, (mine, theirs) in enumerate(((r1, q1), (r2, q2))):
                if mine is None:
                    continue
                for k, rec in enumerate(mine):
                    i = idx[k]
                    if bound is not None and (i >= bound or i < 0):
                        break
                    if k >= len(theirs) or tuple(theirs[k]) != tuple(rec):
                        out.append(C.V("output-not-prefix", f"{name}: {d['paths'][min(side, len(d['paths'])-1)]} record {k} ({rec[0]!r}) is not the record the fault-free run writes there"))
                        break
    if res.exit == 0 and cls == WELL:
        j = C.load_json_report(res)
        if j is not None:
            rc = j["read_counts"]
            if rc["input"] != n_in:
                out.append(C.V("lost-reads", f"{name}: exit 0 on a well-formed file with {n_in} records but the report says input={rc['input']}"))
            filtered = sum(v for v in rc["filtered"].values() if v)
            redirected = sum(1 for i in seen)  # every id seen in some file
            sinks = 0
            for d in dests:
                if d["role"] == "sink":
                    try:
                        sinks += len(C.read_dest(res, d)[1])
                    except Exception:
                        pass
            if rc["output"] != sinks:
                out.append(C.V("lost-reads", f"{name}: report says output={rc['output']} but the output files hold {sinks} records"))
            if rc["output"] + filtered != n_in:
                out.append(C.V("lost-reads", f"{name}: output {rc['output']} + filtered {filtered} != {n_in} input records"))
    return out


def evaluate(case, ctx):
    files0 = gen.materialize(case)
    files = engine.gen_files(case)
    changed = files != files0
    case["meta"]["fault_changed_bytes"] = changed
    cls, n_in, reason = classify(case, files)
    case["meta"]["class"] = cls
    case["meta"]["class_reason"] = reason
    ref = _reference(case, ctx)
    if ref.exit == 2:
        raise engine.Discard("cli-rejected")
    if ref.exit != 0:
        raise engine.Discard("reference-run-failed")
    bound = fault_record_index(case, files0, files)
    viols = []
    ser = C.run_serial(case, ctx, files, name="serial")
    viols += judge_run(case, ser, "serial", cls, n_in, ref, bound)
    par = C.run_parallel(case, ctx, files, name="par")
    if par.outcome == "finished" and par.exit not in (0, None) and C.is_buffer_too_small(par) and cls != MAL:
        raise engine.Discard("buffer-too-small")
    viols += judge_run(case, par, "par", cls, n_in, ref, bound)
    # de-duplicate clauses (serial and par often fail alike)
    seen = set()
    uniq = []
    for v in viols:
        k = (v["clause"], v["msg"].split(":")[0])
        if k not in seen:
            seen.add(k)
            uniq.append(v)
    case["meta"]["detector"] = detector(par)
    case["meta"]["position"] = position_class(case)
    return uniq


def detector(par):
    if par.outcome != "finished":
        return par.outcome
    if par.exit == 0:
        return "none"
    if par.n_tasks <= 2 and not par.markers:
        return "main-or-handshake"
    if par.markers:
        who = par.markers[0][0]
        if who == "reader":
            return "reader-handshake" if par.n_tasks <= 2 else "reader"
        return "worker"
    return "main"


def position_class(case):
    if not case["faults"]:
        return "none"
    f = case["faults"][0]
    n = len(case["records"]) * (2 if case["input"]["layout"] == "interleaved" else 1)
    if f["kind"] == "truncate":
        fi = min(f.get("file", 0), len(case["input"]["containers"]) - 1)
        if case["input"]["containers"][fi]:
            return "compressed-bytes"
        offs = record_offsets(case, fi)
        if f["offset"] in offs:
            return "record-boundary"
        rec = sum(1 for o in offs[1:] if o <= f["offset"])
    elif "rec" in f:
        rec = f["rec"]
    else:
        return f["kind"]
    if n <= 1 or rec <= 0:
        return "first"
    if rec >= n - 1:
        return "last"
    return "middle"


def nontrivial_key(case, ctx):
    m = case["meta"]
    if not m.get("fault_changed_bytes"):
        return None
    par = ctx.results.get("par")
    return ["+".join(f["kind"] for f in case["faults"]), m.get("position"), case["input"]["layout"],
            "".join(case["input"]["containers"]) or "plain", m.get("class"), m.get("detector"),
            par.exit if par is not None else None]


def signature(case, violation):
    s = C.base_signature(case, violation)
    s["fault_kinds"] = "+".join(sorted({f["kind"] for f in case["faults"]}))
    s["class"] = case["meta"].get("class")
    return s


def sample_view(case, ctx):
    v = C.sample_view(case, ctx)
    v["class"] = case["meta"].get("class")
    v["class_reason"] = case["meta"].get("class_reason")
    v["detector"] = case["meta"].get("detector")
    return v


def conformance(seed, tier, k):
    """Simulated vs. real execution on faulted inputs: exit status (and, at one core, all files)."""
    import sys
    from concurrent.futures import ThreadPoolExecutor

    from sim import realrun

    src = next(p for p in sys.path if "cutadapt-verif-src" in p)
    todo = []
    for i in range(k):
        rng = engine.case_rng(seed, "C12conf", i)
        case = generate_indexed(seed, 10**9 + i, tier, rng)
        # the real runs read regular files: no /dev/fd pipes here (under spawn they fail, see KF-C06-4)
        case["input"].pop("devfd", None)
        case["knobs"].pop("devfd", None)
        # ... and get them whole: how far a run gets before it meets the fault depends on the piece size
        case["knobs"].pop("short_reads", None)
        case["knobs"].pop("default_buffer", None)
        files = engine.gen_files(case)
        ctx = engine.Ctx(case)
        s1 = C.run_serial(case, ctx, files, name="serial")
        sn = C.run_parallel(case, ctx, files, name="par")
        if sn.outcome != "finished":
            continue
        todo.append((i, case, files, s1, sn))

    def one(t):
        i, case, files, s1, sn = t
        inputs = set(gen.input_paths(case)) | set(case.get("aux_files") or ())
        r1 = realrun.run_real(gen.build_argv(case, cores=1), files, src, timeout=60)
        rn = realrun.run_real(gen.build_argv(case, cores=case["knobs"]["workers"]), files, src, timeout=60)
        d1 = realrun.compare(s1, r1, inputs)
        dn = []
        if rn.hung:
            dn.append("real multi-core run timed out (hang) where the simulation finished")
        elif (rn.exit == 0) != (sn.exit == 0):
            dn.append(f"exit status sim={sn.exit} real={rn.exit}; real stderr tail {rn.stderr[-300:]!r}")
        return i, case["faults"], d1, dn

    a1 = an = 0
    problems = []
    with ThreadPoolExecutor(8) as ex:
        for i, faults, d1, dn in ex.map(one, todo):
            a1 += not d1
            an += not dn
            if d1:
                problems.append(f"case {i} {faults} --cores 1: {d1}")
            if dn:
                problems.append(f"case {i} {faults} --cores N: {dn}")
    return {"sim_vs_real_cases": len(todo), "sim_vs_real_agree_cores_1": a1, "sim_vs_real_agree_exit_cores_N": an,
            "sim_vs_real_disagreements": problems[:5]}, problems


def main(seed, tier, args):
    import sys

    mod = sys.modules[__name__]
    bases, table = _table(seed, tier)
    n_enum = len(table)
    extra = 3500 if tier == "quick" else 60000
    n = args.cases or (n_enum + extra)
    budget = args.budget or (150 if tier == "quick" else 1500)
    ex = {"enumerated_bases": len(bases), "enumerated_single_fault_cases": n_enum,
          "exhaustive_over": "fault position (every truncation offset, every record index x corruption kind) for the enumerated bases; schedules are sampled",
          "enumerated_base_layouts": [[b["input"]["layout"], b["input"]["containers"], b["input"]["members"], len(b["records"])] for b in bases]}
    conf, problems = conformance(seed, tier, 24 if tier == "quick" else 200)
    ex.update(conf)
    rc, ev = engine.run_batch(mod, seed, tier, n, budget, extra_evidence=ex)
    if problems:
        for p_ in problems[:5]:
            print("HARNESS-ERROR: simulated and real execution disagree:", p_[:600], file=sys.stderr)
        if rc == 0:
            rc = 2
    c = ev["coverage"]
    print(f"C12 {tier}: {c['evaluations']} cases judged ({n_enum} enumerated over {len(bases)} bases), {c['distinct_nontrivial']} distinct non-trivial, "
          f"faults {c['fault_kinds_fired']}, discards {c['discards_by_reason']}, skipped {c['cases_skipped_for_wall_budget']}, wall {ev['wall_s']}s")
    return rc
