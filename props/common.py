"""Helpers shared by the property modules."""
import json

from sim import engine, fmt, gen

VARYING_PREFIXES = (b"This is cutadapt", b"Command line parameters:", b"Processing ")


def V(clause, msg, **detail):
    d = {"clause": clause, "msg": msg}
    if detail:
        d["detail"] = detail
    return d


def normalize_stream(b):
    if isinstance(b, str):
        b = b.encode()
    return b"\n".join(ln for ln in b.split(b"\n") if not ln.startswith(VARYING_PREFIXES))


def is_buffer_too_small(res):
    return "does not fit into buffer" in res.stderr or "OverflowError" in res.stderr


def outputs_of(case, res):
    """All files a run created (everything in SimFS that is not an input file)."""
    inputs = set(gen.input_paths(case))
    return {p: d for p, d in res.files.items() if p not in inputs}


def load_json_report(res, path="/simfs/report.json"):
    data = res.files.get(path)
    if data is None:
        return None
    return json.loads(data.decode())


def strip_json(j):
    j = dict(j)
    j.pop("cores", None)
    j.pop("command_line_arguments", None)
    return j


def run_serial(case, ctx, files, name="ref", **kw):
    return ctx.run(name, gen.build_argv(case, cores=1, **kw), files, parallel=False)


def run_parallel(case, ctx, files, name="par", **kw):
    return ctx.run(name, gen.build_argv(case, cores=case["knobs"]["workers"], **kw), files, parallel=True)


def hang_violations(res, name):
    if res.outcome == "deadlock":
        return [V("deadlock", f"run '{name}' deadlocked: {res.blocked}")]
    if res.outcome == "no-progress":
        return [V("no-progress", f"run '{name}' hit the step cap: {res.blocked}")]
    return []


def compare_with_reference(case, ref, par, label="par"):
    """C06 oracle: every file byte-identical after decompression, reports equal."""
    out = []
    if par.exit != ref.exit:
        return [V("exit-status", f"{label}: exit status {par.exit} but single-core run gave {ref.exit}; stderr tail: {par.stderr[-400:]!r}")]
    if par.alive_at_end:
        out.append(V("children-alive", f"{label}: processes still alive after main returned: {par.alive_at_end}"))
    fr, fp = outputs_of(case, ref), outputs_of(case, par)
    if set(fr) != set(fp):
        out.append(V("file-set", f"{label}: files differ: only single-core {sorted(set(fr)-set(fp))}, only multi-core {sorted(set(fp)-set(fr))}"))
    for p in sorted(set(fr) & set(fp)):
        if p.endswith("report.json"):
            continue
        try:
            a = fmt.decompress(p, fr[p])
        except fmt.FormatError:
            # not this property's business: compare the stored bytes instead
            if fr[p] != fp[p]:
                out.append(V("file-content", f"{label}: {p} differs from the single-core result (raw bytes; container unreadable)", path=p))
            continue
        try:
            b = fmt.decompress(p, fp[p])
        except fmt.FormatError as e:
            out.append(V("file-content", f"{label}: {p} is not a valid container: {e}"))
            continue
        if a != b:
            out.append(V("file-content", f"{label}: {p} differs from the single-core result ({len(a)} vs {len(b)} bytes after decompression; first difference at byte {first_diff(a, b)})", path=p))
    if normalize_stream(ref.stdout) != normalize_stream(par.stdout):
        out.append(V("stdout", f"{label}: standard output differs from the single-core run (first difference at byte {first_diff(normalize_stream(ref.stdout), normalize_stream(par.stdout))})"))
    if normalize_stream(ref.stderr) != normalize_stream(par.stderr):
        out.append(V("stderr-report", f"{label}: report/log on stderr differs from the single-core run"))
    jr, jp = load_json_report(ref), load_json_report(par)
    if (jr is None) != (jp is None):
        out.append(V("json-report", f"{label}: JSON report present in one run only"))
    elif jr is not None and strip_json(jr) != strip_json(jp):
        out.append(V("json-report", f"{label}: JSON report differs: {json_diff(strip_json(jr), strip_json(jp))[:500]}"))
    return out


def first_diff(a, b):
    n = min(len(a), len(b))
    for i in range(n):
        if a[i] != b[i]:
            return i
    return n


def json_diff(a, b, path=""):
    if type(a) != type(b):
        return f"{path}: {a!r} != {b!r}"
    if isinstance(a, dict):
        for k in sorted(set(a) | set(b)):
            if k not in a or k not in b:
                return f"{path}/{k}: present in one only"
            d = json_diff(a[k], b[k], f"{path}/{k}")
            if d:
                return d
        return ""
    if isinstance(a, list):
        if len(a) != len(b):
            return f"{path}: list lengths {len(a)} != {len(b)}"
        for i, (x, y) in enumerate(zip(a, b)):
            d = json_diff(x, y, f"{path}[{i}]")
            if d:
                return d
        return ""
    return "" if a == b else f"{path}: {a!r} != {b!r}"


def n_chunks_estimate(res):
    """Number of chunks the reader sent, from the event log (send_bytes on reader channels)."""
    if not res.log:
        return 0
    return sum(1 for ev in res.log if ev[1] == "reader" and ev[2] == "send" and True) 


def workers_that_worked(res):
    if not res.log:
        return 0
    return len({ev[1] for ev in res.log if ev[1].startswith("worker") and ev[2] == "send_bytes"})


def option_signature(case):
    """Sorted set of option flags (without values) -- the 'option-group signature'."""
    flags = sorted({g[0] for g in case["opts"] + case["outs"]})
    return flags


def base_signature(case, violation):
    m = case["meta"]
    msg = violation.get("msg", "")
    kind = None
    if "Interleaved input file incomplete" in msg:
        kind = "interleaved-incomplete"
    return {
        "clause": violation["clause"],
        "demux": m.get("demux"),
        "paired": case["paired"],
        "input_fmt": case["fmt"],
        "input_layout": case["input"]["layout"],
        "error_kind": kind,
    }


def sample_view(case, ctx):
    v = {
        "argv": gen.build_argv(case, cores=case["knobs"]["workers"]),
        "n_records": len(case["records"]),
        "first_records": case["records"][:2],
        "input": case["input"],
        "knobs": {k: case["knobs"][k] for k in ("workers", "buffer_size", "capacity", "feeder", "policy")},
        "faults": case.get("faults"),
        "runs": {},
    }
    for name, r in ctx.results.items():
        v["runs"][name] = {"outcome": r.outcome, "exit": r.exit, "steps": r.steps, "tasks": r.n_tasks,
                           "files": {p: len(d) for p, d in sorted(r.files.items())}}
    return v
