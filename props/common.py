"""Helpers shared by the property modules."""
import json

from sim import engine, fmt, gen

VARYING_PREFIXES = (b"This is cutadapt", b"Command line parameters:", b"Processing ")


def V(clause, msg, **detail):
    d = {"clause": clause, "msg": msg}
    if detail:
        d["detail"] = detail
    return d


def normalize_stream(b):
    if isinstance(b, str):
        b = b.encode()
    return b"\n".join(ln for ln in b.split(b"\n") if not ln.startswith(VARYING_PREFIXES))


def is_buffer_too_small(res, case=None):
    """The run failed because a record did not fit into --buffer-size. With `case`: only when the
    buffer really is smaller than the generator's floor for these records (a shrunk case, say) -
    otherwise the failure is cutadapt's and must be judged."""
    if not ("does not fit into buffer" in res.stderr or "OverflowError" in res.stderr):
        return False
    if case is None:
        return True
    s1, s2 = gen.record_sizes(case)
    if case["input"]["layout"] == "interleaved":
        per = [a + b for a, b in zip(s1, s2)]
    else:
        per = [max(a, b) for a, b in zip(s1, s2)] if s2 else s1
    comments = 20 * (case["input"].get("comments") or 0)  # '#' lines in front of the first FASTA record
    return case["knobs"]["buffer_size"] < 2 * (max(per) if per else 16) + 8 + comments


def outputs_of(case, res):
    """All files a run created (everything in SimFS that is not an input file)."""
    inputs = set(gen.input_paths(case)) | set(case.get("aux_files") or ())
    return {p: d for p, d in res.files.items() if p not in inputs}


def load_json_report(res, path="/simfs/report.json"):
    data = res.files.get(path)
    if data is None:
        return None
    return json.loads(data.decode())


def strip_json(j):
    j = dict(j)
    j.pop("cores", None)
    j.pop("command_line_arguments", None)
    return j


def run_serial(case, ctx, files, name="ref", **kw):
    return ctx.run(name, gen.build_argv(case, cores=1, **kw), files, parallel=False)


def run_parallel(case, ctx, files, name="par", **kw):
    return ctx.run(name, gen.build_argv(case, cores=case["knobs"]["workers"], **kw), files, parallel=True)


def hang_violations(res, name):
    if res.outcome == "deadlock":
        return [V("deadlock", f"run '{name}' deadlocked: {res.blocked}")]
    if res.outcome == "no-progress":
        return [V("no-progress", f"run '{name}' hit the step cap: {res.blocked}")]
    return []


def compare_with_reference(case, ref, par, label="par"):
    """C06 oracle: every file byte-identical after decompression, reports equal."""
    out = []
    if par.exit != ref.exit:
        return [V("exit-status", f"{label}: exit status {par.exit} but single-core run gave {ref.exit}; stderr tail: {par.stderr[-400:]!r}")]
    if par.alive_at_end:
        out.append(V("children-alive", f"{label}: processes still alive after main returned: {par.alive_at_end}"))
    fr, fp = outputs_of(case, ref), outputs_of(case, par)
    if set(fr) != set(fp):
        out.append(V("file-set", f"{label}: files differ: only single-core {sorted(set(fr)-set(fp))}, only multi-core {sorted(set(fp)-set(fr))}"))
    for p in sorted(set(fr) & set(fp)):
        if p.endswith("report.json"):
            continue
        try:
            a = fmt.decompress(p, fr[p])
        except fmt.FormatError:
            # not this property's business: compare the stored bytes instead
            if fr[p] != fp[p]:
                out.append(V("file-content", f"{label}: {p} differs from the single-core result (raw bytes; container unreadable)", path=p))
            continue
        try:
            b = fmt.decompress(p, fp[p])
        except fmt.FormatError as e:
            out.append(V("file-content", f"{label}: {p} is not a valid container: {e}"))
            continue
        if a != b:
            out.append(V("file-content", f"{label}: {p} differs from the single-core result ({len(a)} vs {len(b)} bytes after decompression; first difference at byte {first_diff(a, b)})", path=p))
    if normalize_stream(ref.stdout) != normalize_stream(par.stdout):
        out.append(V("stdout", f"{label}: standard output differs from the single-core run (first difference at byte {first_diff(normalize_stream(ref.stdout), normalize_stream(par.stdout))})"))
    if normalize_stream(ref.stderr) != normalize_stream(par.stderr):
        out.append(V("stderr-report", f"{label}: report/log on stderr differs from the single-core run"))
    jr, jp = load_json_report(ref), load_json_report(par)
    if (jr is None) != (jp is None):
        out.append(V("json-report", f"{label}: JSON report present in one run only"))
    elif jr is not None and strip_json(jr) != strip_json(jp):
        out.append(V("json-report", f"{label}: JSON report differs: {json_diff(strip_json(jr), strip_json(jp))[:500]}"))
    return out


def first_diff(a, b):
    n = min(len(a), len(b))
    for i in range(n):
        if a[i] != b[i]:
            return i
    return n


def json_diff(a, b, path=""):
    if type(a) != type(b):
        return f"{path}: {a!r} != {b!r}"
    if isinstance(a, dict):
        for k in sorted(k for k in set(a) | set(b) if not k.startswith("_")):  # ("_..." keys are the oracle's own)
            if k not in a or k not in b:
                return f"{path}/{k}: present in one only"
            d = json_diff(a[k], b[k], f"{path}/{k}")
            if d:
                return d
        return ""
    if isinstance(a, list):
        if len(a) != len(b):
            return f"{path}: list lengths {len(a)} != {len(b)}"
        for i, (x, y) in enumerate(zip(a, b)):
            d = json_diff(x, y, f"{path}[{i}]")
            if d:
                return d
        return ""
    return "" if a == b else f"{path}: {a!r} != {b!r}"


def n_chunks_estimate(res):
    """Number of chunks the reader sent, from the event log (send_bytes on reader channels)."""
    if not res.log:
        return 0
    return sum(1 for ev in res.log if ev[1] == "reader" and ev[2] == "send" and True) 


def workers_that_worked(res):
    if not res.log:
        return 0
    return len({ev[1] for ev in res.log if ev[1].startswith("worker") and ev[2] == "send_bytes"})


def option_signature(case):
    """Sorted set of option flags (without values) -- the 'option-group signature'."""
    flags = sorted({g[0] for g in case["opts"] + case["outs"]})
    return flags


def base_signature(case, violation):
    m = case["meta"]
    msg = violation.get("msg", "")
    kind = None
    if "Interleaved input file incomplete" in msg:
        kind = "interleaved-incomplete"
    elif "First character in input file must be" in msg:
        kind = "first-character"
    elif "No such file or directory: '/dev/fd/" in msg:
        kind = "devfd-enoent"
    mixed = False
    try:
        for d in destinations(case):
            if len(d["paths"]) == 2 and gen.ext_class(d["paths"][0]) != gen.ext_class(d["paths"][1]):
                mixed = True  # (a pair of /dev/null and a named file is such a pair, too)
    except Exception:
        pass
    return {
        "clause": violation["clause"],
        "mixed_format_pair": mixed,
        "demux": m.get("demux"),
        "paired": case["paired"],
        "input_fmt": case["fmt"],
        "input_layout": case["input"]["layout"],
        "fasta_comments": bool(case["input"].get("comments")) and case["fmt"] == "fasta",
        "error_kind": kind,
        "input_via": "devfd" if case["input"].get("devfd") else ("stdin" if case["input"].get("stdin") else "path"),
        "start_method": case["knobs"].get("start_method"),
    }


def sample_view(case, ctx):
    v = {
        "argv": gen.build_argv(case, cores=case["knobs"]["workers"]),
        "n_records": len(case["records"]),
        "first_records": case["records"][:2],
        "input": case["input"],
        "knobs": {k: case["knobs"][k] for k in ("workers", "buffer_size", "capacity", "feeder", "policy")},
        "faults": case.get("faults"),
        "runs": {},
    }
    for name, r in ctx.results.items():
        v["runs"][name] = {"outcome": r.outcome, "exit": r.exit, "steps": r.steps, "tasks": r.n_tasks,
                           "files": {p: len(d) for p, d in sorted(r.files.items())}}
    return v


# --------------------------------------------------------------------------- destinations

STDOUT = "<stdout>"


def _optval(groups, flag):
    for g in groups:
        if g[0] == flag:
            return g[1] if len(g) > 1 else True
    return None


def destinations(case):
    """
    Where records can go, derived from the command line only:
    list of dict(role, paths, interleaved, key) with role in
    sink | too_short | too_long | untrimmed ; key = adapter name (tuple for combinatorial) or None.
    """
    outs = case["outs"]
    m = case["meta"]
    paired = case["paired"]
    o, p = _optval(outs, "-o"), _optval(outs, "-p")
    dests = []

    def pairdest(role, p1, p2, key=None):
        if paired:
            if p2 is None:
                return {"role": role, "paths": [p1], "interleaved": True, "key": key}
            return {"role": role, "paths": [p1, p2], "interleaved": False, "key": key}
        return {"role": role, "paths": [p1], "interleaved": False, "key": key}

    uo, upo = _optval(outs, "--untrimmed-output"), _optval(outs, "--untrimmed-paired-output")
    discard_untrimmed = _optval(outs, "--discard-untrimmed") is not None
    if m["demux"] == "normal":
        for nm in dict.fromkeys(m["names1"]):  # adapters sharing a name share a file
            dests.append(pairdest("sink", o.replace("{name}", nm), p.replace("{name}", nm) if p else None, key=nm))
        if not discard_untrimmed:
            u1 = uo if uo else o.replace("{name}", "unknown")
            u2 = (upo if upo else p.replace("{name}", "unknown")) if p else None
            dests.append(pairdest("sink", u1, u2, key=None))
    elif m["demux"] == "combinatorial":
        combos = [(a, b) for a in dict.fromkeys(m["names1"]) for b in dict.fromkeys(m["names2"])]
        if not discard_untrimmed:
            combos += [(None, None)] + [(None, b) for b in m["names2"]] + [(a, None) for a in m["names1"]]
        for a, b in combos:
            fa, fb = a or "unknown", b or "unknown"
            dests.append(pairdest("sink", o.replace("{name1}", fa).replace("{name2}", fb), p.replace("{name1}", fa).replace("{name2}", fb), key=(a, b)))
    else:
        if o is None:
            dests.append({"role": "sink", "paths": [STDOUT], "interleaved": paired, "key": None})
        else:
            dests.append(pairdest("sink", o, p))
        if uo:
            dests.append(pairdest("untrimmed", uo, upo))
    ts, tsp = _optval(outs, "--too-short-output"), _optval(outs, "--too-short-paired-output")
    if ts:
        dests.append(pairdest("too_short", ts, tsp))
    tl, tlp = _optval(outs, "--too-long-output"), _optval(outs, "--too-long-paired-output")
    if tl:
        dests.append(pairdest("too_long", tl, tlp))
    return dests


def file_bytes(res, path):
    if path == STDOUT:
        return res.stdout
    return res.files.get(path)


def read_dest(res, dest):
    """
    Parse one destination strictly. Returns (format, r1 records, r2 records or None).
    Raises fmt.FormatError (container or record syntax) / KeyError (file missing).
    """
    recs = []
    fmts = []
    for p in dest["paths"]:
        data = file_bytes(res, p)
        if data is None:
            raise KeyError(p)
        f, r = fmt.parse_records(p if p != STDOUT else "stdout", data)
        fmts.append(f)
        recs.append(r)
    if dest["interleaved"]:
        r = recs[0]
        if len(r) % 2:
            raise fmt.FormatError(f"{dest['paths'][0]}: interleaved file with odd number of records")
        return fmts[0], r[0::2], r[1::2]
    if len(recs) == 2:
        return fmts[0], recs[0], recs[1]
    return fmts[0], recs[0], None


DEVNULL = "/dev/null"


def read_dest_ex(res, dest):
    """
    Like read_dest, for destinations of which one or both files may be /dev/null:
    returns (format, r1, r2, observed) with observed in 'both' | 'r1' | 'r2' | 'none'; the
    records of an unobserved side are None.
    """
    paths = dest["paths"]
    if DEVNULL not in paths:
        f, r1, r2 = read_dest(res, dest)
        return f, r1, r2, "both"
    if all(p == DEVNULL for p in paths):
        return None, None, None, "none"
    k = 0 if paths[1] == DEVNULL else 1
    f, r, _ = read_dest(res, {"paths": [paths[k]], "interleaved": False})
    return (f, r, None, "r1") if k == 0 else (f, None, r, "r2")


def rid(name):
    m = gen.ID_RE.search(name)
    return m.group(0) if m else None
