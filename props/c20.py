"""
C20 -- per-adapter statistics describe exactly the matches that were applied.
"""
import copy
import re
from collections import Counter, defaultdict

from sim import engine, fmt, gen
from . import common as C

ID = "C20"
LEVEL = "exploration"
RULE = (
    "Seeded cases with adapter sets of all types (regular/anchored/non-internal 5' and 3', anywhere, linked), --times "
    "1-3, every --action, --revcomp, --pair-adapters, single- and paired-end, always --info-file and --json and no "
    "modifier that shortens reads before adapter trimming. Each case is run serially and with 2-5 simulated workers "
    "under a seeded schedule (every worker tallies its own chunks; main merges). Oracle: the info-file rows of the same "
    "run (one per applied match) are tallied per adapter and end -- matches, removed length x error count, base "
    "preceding each 3' match, 5'/3' split, matches on reverse-complemented reads -- and must equal adapters_read1 of the "
    "JSON report; adapters_read2 is compared with the tally of a mirrored run (R1<->R2, -a/-g/-b <-> -A/-G/-B). Every "
    "JSON report is also checked for error_lengths == int(L*rate) for all L up to the number of non-N adapter bases. "
    "Non-trivial = >= 2 matches tallied and, for the multi-core run, >= 2 workers processed chunks; distinct = distinct "
    "(option-flag signature, adapter kinds, tally shape, abstract schedule)."
)
ASSUMPTIONS = [
    "the info file (written by a different code path, transported through a different proxy) is taken as the record of the matches applied",
    "rows ';1'/';2' of a linked match are grouped when adjacent; reverse-complement counts are not compared for linked adapters combined with --times > 1",
    "paired --revcomp is not generated: there the info file describes the wrong read for swapped pairs (an info-file defect, property C17, not a statistics defect), so it cannot serve as the independent record",
    "simulation kernel/SimFS as for C06",
]

SEARCH_FLAGS = {"-e", "-O", "--no-indels", "--match-read-wildcards", "-N", "-n", "--action", "--pair-adapters", "--no-index"}
SWAP = {"-a": "-A", "-g": "-G", "-b": "-B", "-A": "-a", "-G": "-g", "-B": "-b"}


STAMP_RC = re.compile(r"( rc)? a=(\S+)$")


def generate(rng, tier):
    if rng.random() < 0.07:
        # paired-end --revcomp: the info file is no witness there (it describes one read only), but the read
        # names are - ' rc' marks a swapped pair and the -y suffix names each mate's last match
        case = gen.gen_case(rng, {
            "paired": True, "fastq": True, "p_adapters": 1.0, "require_named": True, "upper_only": True, "p_revcomp": 1.0,
            "revcomp_single_only": False, "p_filters": 0.0, "p_redirect": 0.0, "p_untrimmed_opts": 0.0, "p_demux": 0.0,
            "p_pair_adapters": 0.0, "times": (1, 1), "p_rename": 0.0, "force_suffix": " a={name}", "p_stdout": 0.0,
            "p_minimal_report": 0.0, "p_info": 0.0, "p_interleaved_out": 0.0, "p_same_r2": 0.1,
        })
        case["meta"]["paired_revcomp_stamps"] = True
        return case
    return gen.gen_case(rng, {
        "p_adapters": 1.0, "require_named": True, "force_info": True, "upper_only": True, "shorten_before_adapter": False,
        "p_demux": 0.05, "p_revcomp": 0.2, "p_pair_adapters": 0.12, "p_filters": 0.3, "p_rename": 0.1,
        "p_minimal_report": 0.0, "times": (1, 3), "p_stdout": 0.0, "n_records": (0, 40), "revcomp_single_only": True,
        "p_same_name": 0.08, "same_name_without_demux": True, "p_same_r2": 0.08,
    })


def parse_info(data):
    rows = []
    for ln in data.decode("latin-1").split("\n"):
        if not ln:
            continue
        f = ln.split("\t")
        if len(f) >= 2 and f[1] == "-1":
            continue
        if len(f) < 12:
            raise fmt.FormatError(f"info-file row with {len(f)} columns: {ln[:80]!r}")
        rows.append(f)
    return rows


def info_path(case, outs=None):
    return C._optval(outs or case["outs"], "--info-file")


class Ambiguous(Exception):
    pass


_IUPAC = {"A": "A", "C": "C", "G": "G", "T": "T", "U": "T", "R": "AG", "Y": "CT", "S": "CG", "W": "AT", "K": "GT", "M": "AC",
          "B": "CGT", "D": "AGT", "H": "ACT", "V": "ACG", "N": "ACGTN", "X": ""}


def _fit_distance(seg, adapter, free_start, free_end):
    """Edit distance between the whole of `seg` and the adapter, of which a prefix (free_start) and/or
    a suffix (free_end) may be left out at no cost; adapter wildcards match their bases."""
    n, m = len(seg), len(adapter)
    prev = [0 if free_start else j for j in range(m + 1)]
    for i in range(1, n + 1):
        cur = [i] + [0] * m
        c = seg[i - 1]
        for j in range(1, m + 1):
            hit = c in _IUPAC.get(adapter[j - 1], adapter[j - 1])
            cur[j] = min(prev[j - 1] + (0 if hit else 1), prev[j] + 1, cur[j - 1] + 1)
        prev = cur
    return min(prev) if free_end else prev[m]


def assign_uids(json_adapters):
    """Adapters may share a name; give each a unique key (the name itself when it is unique)."""
    seen = Counter()
    total = Counter(a["name"] for a in json_adapters)
    for a in json_adapters:
        a["_occ"] = seen[a["name"]]
        a["_uid"] = a["name"] if total[a["name"]] == 1 else f"{a['name']}\x00{a['_occ']}"
        seen[a["name"]] += 1


def _attribute(row, candidates):
    """Which of several same-named adapters a row of the info file belongs to: the one that can
    have produced this match (position, matched bases, number of errors). When more than one
    can, the row cannot be judged."""
    errors, start, end = int(row[1]), int(row[2]), int(row[3])
    seg = row[5].upper()
    readlen = len(row[4]) + len(row[5]) + len(row[6])
    fits = []
    for a in candidates:
        # a necessary condition only (search parameters such as ';anywhere' allow partial occurrences at
        # either end of the read): the matched bases fit some stretch of the adapter within the error count
        seqs = [e["sequence"] for e in (a["five_prime_end"], a["three_prime_end"]) if e]
        if any(_fit_distance(seg, s_, True, True) <= errors for s_ in seqs):
            fits.append(a["_uid"])
    if len(fits) != 1:
        raise Ambiguous(row[7])
    return fits[0]


def tally_info(rows, json_adapters):
    """adapter key (_uid) -> dict(five, three, adjacent, rc, total)"""
    kinds = {}
    by_name = defaultdict(list)
    if json_adapters and "_uid" not in json_adapters[0]:
        assign_uids(json_adapters)
    for a in json_adapters:
        kinds[a["_uid"]] = ("linked" if a["linked"] else "both" if (a["five_prime_end"] and a["three_prime_end"])
                            else "five" if a["five_prime_end"] else "three")
        by_name[a["name"]].append(a)
    for group in by_name.values():
        if len(group) > 1 and any(a["linked"] for a in group):
            raise Ambiguous(group[0]["name"])
    t = {n: {"five": defaultdict(Counter), "three": defaultdict(Counter), "adjacent": Counter(), "rc": 0} for n in kinds}
    prev = None
    for f in rows:
        name = f[7]
        if len(by_name.get(name, ())) > 1:
            name = _attribute(f, by_name[name])
        errors, start, end = int(f[1]), int(f[2]), int(f[3])
        left, mid, right = f[4], f[5], f[6]
        rc = f[11] == "1"
        part = None
        if name not in kinds and name[-2:] in (";1", ";2") and name[:-2] in kinds:
            part = name[-1]
            name = name[:-2]
        if name not in kinds:
            raise fmt.FormatError(f"info-file names adapter {f[7]!r} which the report does not list")
        k = kinds[name]
        if k == "linked":
            end_ = "five" if part == "1" else "three"
        elif k == "both":
            end_ = "five" if start == 0 else "three"
        else:
            end_ = k
        if end_ == "five":
            t[name]["five"][end][errors] += 1
        else:
            t[name]["three"][len(left) + len(mid) + len(right) - start][errors] += 1
            b = left[-1:]
            t[name]["adjacent"][b if b in ("A", "C", "G", "T") else ""] += 1
        same_match = k == "linked" and part == "2" and prev == (f[0], name, "1")
        if rc and not same_match:
            t[name]["rc"] += 1
        prev = (f[0], name, part)
    return t


def hist_of(end_json):
    """JSON end statistics -> {len: {errors: n}}"""
    h = {}
    if not end_json:
        return h
    for row in end_json["trimmed_lengths"]:
        d = {e: n for e, n in enumerate(row["counts"]) if n}
        if d:
            h[row["len"]] = d
    return h


def norm(h):
    return {length: {e: n for e, n in c.items() if n} for length, c in h.items() if sum(c.values())}


def compare(name, label, json_adapters, tally, check_rc, any_rc):
    out = []
    for a in json_adapters:
        t = tally[a.get("_uid", a["name"])]
        for end_, key in (("five", "five_prime_end"), ("three", "three_prime_end")):
            want = norm(t[end_])
            got = hist_of(a[key])
            if want != got:
                out.append(C.V("length-error-histogram", f"{name}: {label} adapter {a['name']} {key}: report {got} but the applied matches give {want}"))
            n_want = sum(sum(c.values()) for c in want.values())
            if a[key] is not None and a[key]["matches"] != n_want:
                out.append(C.V("match-count", f"{name}: {label} adapter {a['name']} {key}.matches={a[key]['matches']} but {n_want} matches were applied"))
            if a[key] is None and n_want:
                out.append(C.V("five-three-split", f"{name}: {label} adapter {a['name']} has no {key} but {n_want} such matches were applied"))
        total = sum(sum(c.values()) for e in ("five", "three") for c in t[e].values())
        if a["total_matches"] != total:
            out.append(C.V("match-count", f"{name}: {label} adapter {a['name']} total_matches={a['total_matches']} but {total} matches were applied"))
        if a["three_prime_end"]:
            adj = a["three_prime_end"]["adjacent_bases"]
            want_adj = {b: t["adjacent"].get(b, 0) for b in ("A", "C", "G", "T", "")}
            if adj is None:
                if sum(want_adj.values()):
                    out.append(C.V("adjacent-bases", f"{name}: {label} adapter {a['name']} reports no adjacent bases but matches give {want_adj}"))
            elif adj != want_adj:
                out.append(C.V("adjacent-bases", f"{name}: {label} adapter {a['name']} adjacent_bases {adj} but matches give {want_adj}"))
        if check_rc:
            want_rc = t["rc"] if any_rc else None
            if a["on_reverse_complement"] != want_rc:
                out.append(C.V("reverse-complement-count", f"{name}: {label} adapter {a['name']} on_reverse_complement={a['on_reverse_complement']} but {want_rc} matches were on reverse-complemented reads"))
    return out


_NO_WILDCARDS = [False]  # set per case: with -N the N characters of an adapter are ordinary bases


def eff_len(seq):
    return len(seq) if _NO_WILDCARDS[0] else len(seq) - seq.count("N")


SECTION = re.compile(r"^=== (First read: |Second read: )?Adapter (.+) ===$", re.M)


def parse_text_adapters(text):
    """{(which, adapter name): dict(trimmed=[..], tables={kind: {len: {err: n}}}, maxerr={kind: {len: v}},
    bases={...} or None, allowed=str or None)} from the full text report."""
    out = {}
    heads = list(SECTION.finditer(text))
    for k, m in enumerate(heads):
        body = text[m.end() : heads[k + 1].start() if k + 1 < len(heads) else len(text)]
        which = 2 if (m.group(1) or "").startswith("Second") else 1
        sec = {"tables": {}, "maxerr": {}, "counts": {}, "bases": None, "allowed": [], "trimmed": None}
        mt = re.search(r"; Trimmed: (\d+) times", body)
        if mt:
            sec["trimmed"] = [int(mt.group(1))]
        ml = re.search(r"5' trimmed: (\d+) times; 3' trimmed: (\d+) times", body)
        if ml:
            sec["trimmed"] = [int(ml.group(1)), int(ml.group(2))]
        lines = body.split("\n")
        i = 0
        while i < len(lines):
            ln = lines[i]
            if ln.startswith("Overview of removed sequences"):
                kind = ln[len("Overview of removed sequences") :].strip()
                kind = {"": "single", "(5')": "five", "(3' or within)": "three", "at 5' end": "five", "at 3' end": "three"}.get(kind, kind)
                i += 2  # column header
                tab, mx, cnt = {}, {}, {}
                while i < len(lines) and lines[i].strip():
                    f = lines[i].split("\t")
                    length = int(f[0])
                    cnt[length] = int(f[1])
                    mx[length] = int(f[3])
                    tab[length] = {e: int(c) for e, c in enumerate(f[4].split()) if int(c)}
                    i += 1
                sec["tables"][kind] = tab
                sec["maxerr"][kind] = mx
                sec["counts"][kind] = cnt
            elif ln.startswith("Bases preceding removed adapters:"):
                b = {}
                for j in range(1, 6):
                    key, val = lines[i + j].strip().split(": ")
                    b["" if key == "none/other" else key] = val
                sec["bases"] = b
                i += 5
            elif ln.startswith("No. of allowed errors:"):
                rest = ln[len("No. of allowed errors:") :].strip()
                sec["allowed"].append(rest if rest else lines[i + 1].strip())
            i += 1
        occ = sum(1 for key in out if key[0] == which and key[1] == m.group(2))
        out[(which, m.group(2), occ)] = sec
    return out


def expected_allowed(seq, rate, partial):
    eff = eff_len(seq)
    if not partial:
        return str(int(rate * eff))
    parts = []
    prev = 1
    cur = int(rate * 1) if eff >= 1 else 0
    for L in range(2, eff + 1):
        e = int(rate * L)
        if e != cur:
            parts.append((prev, L - 1, cur))
            prev, cur = L, e
    parts.append((prev, eff, cur))
    out = []
    for a, b, e in parts[:-1]:
        out.append(f"{a}-{b} bp: {e}")
    a, b, e = parts[-1]
    out.append(f"{a} bp: {e}" if a == b else f"{a}-{b} bp: {e}")
    return "; ".join(out)


def compare_text(name, label, which, text_secs, json_adapters, tally):
    """The text report must state the same matches as the tally of applied matches."""
    out = []
    for a in json_adapters:
        sec = text_secs.get((which, a["name"], a.get("_occ", 0)))
        if sec is None:
            out.append(C.V("text-report-adapter", f"{name}: {label} adapter {a['name']}: no section in the text report"))
            continue
        t = tally[a.get("_uid", a["name"])]
        five, three = norm(t["five"]), norm(t["three"])
        n5 = sum(sum(c.values()) for c in five.values())
        n3 = sum(sum(c.values()) for c in three.values())
        both = a["five_prime_end"] is not None and a["three_prime_end"] is not None
        if a["linked"]:
            want_trim = [n5, n3]
        else:
            want_trim = [n5 + n3]
        if sec["trimmed"] != want_trim:
            out.append(C.V("text-report-adapter", f"{name}: {label} adapter {a['name']}: text report says trimmed {sec['trimmed']} times but {want_trim} matches were applied"))
        if n5 + n3 == 0:
            continue
        want_tables = {"five": five, "three": three} if both else {"single": five if a["five_prime_end"] else three}
        for kind, want in want_tables.items():
            got = sec["tables"].get(kind)
            if got is None:
                out.append(C.V("text-report-adapter", f"{name}: {label} adapter {a['name']}: table '{kind}' missing in the text report"))
                continue
            if got != want:
                out.append(C.V("text-report-adapter", f"{name}: {label} adapter {a['name']} table '{kind}': text report {got} but the applied matches give {want}"))
            for length, cnt in sec["counts"][kind].items():
                if cnt != sum(got.get(length, {}).values()):
                    out.append(C.V("text-report-adapter", f"{name}: {label} adapter {a['name']} table '{kind}' length {length}: count column {cnt} != sum of error counts"))
            end = a["five_prime_end"] if kind in ("five",) or (kind == "single" and a["five_prime_end"]) else a["three_prime_end"]
            seq = end["sequence"]
            eff = eff_len(seq)
            for length, v in sec["maxerr"][kind].items():
                if v != int(end["error_rate"] * min(length, eff)):
                    out.append(C.V("text-report-adapter", f"{name}: {label} adapter {a['name']} table '{kind}' length {length}: max.err {v} but int(rate*min(length, {eff}))={int(end['error_rate'] * min(length, eff))}"))
        if sec["bases"] is not None:
            tot = sum(t["adjacent"].values())
            for b, val in sec["bases"].items():
                want = f"{(t['adjacent'].get(b, 0) / tot if tot else 0):.1%}"
                if val != want:
                    out.append(C.V("text-report-adapter", f"{name}: {label} adapter {a['name']}: 'Bases preceding' {b or 'none/other'} {val} but the applied matches give {want}"))
        ends = [e for e in (a["five_prime_end"], a["three_prime_end"]) if e]
        if a["linked"] or not both:
            wants = [expected_allowed(e["sequence"], e["error_rate"], e["error_lengths"] is not None) for e in ends]
        else:
            e = ends[0]
            wants = [expected_allowed(e["sequence"], e["error_rate"], True)]
        if sec["allowed"] != wants:
            out.append(C.V("allowed-errors", f"{name}: {label} adapter {a['name']}: text report states allowed errors {sec['allowed']} but int(L*rate) gives {wants}"))
    return out


def error_ranges_clause(name, j):
    out = []
    for key in ("adapters_read1", "adapters_read2"):
        for a in j.get(key) or []:
            for endk in ("five_prime_end", "three_prime_end"):
                e = a[endk]
                if not e or e["error_lengths"] is None:
                    continue
                seq = e["sequence"]
                eff = eff_len(seq)
                rate = e["error_rate"]
                ls = e["error_lengths"]
                for L in range(1, eff + 1):
                    allowed = next((i for i, m in enumerate(ls) if L <= m), None)
                    if allowed != int(L * rate):
                        out.append(C.V("allowed-errors", f"{name}: adapter {a['name']} ({seq}, rate {rate}): error_lengths {ls} allow {allowed} errors at length {L} but int(L*rate)={int(L * rate)}"))
                        break
    return out


def judge(case, res, name, outs=None, which="adapters_read1", label="R1", jsonpath="/simfs/report.json", json_from=None,
          text_res=None):
    ip = info_path(case, outs)
    data = res.files.get(ip)
    if data is None:
        return [C.V("info-missing", f"{name}: info file not written")], 0
    try:
        rows = parse_info(fmt.decompress(ip, data))
    except fmt.FormatError as e:
        return [C.V("info-unreadable", f"{name}: {e}")], 0
    j = json_from if json_from is not None else C.load_json_report(res, jsonpath)
    adapters = j[which] or []
    meta = case["meta"]
    times = int(C._optval(case["opts"], "-n") or 1)
    has_linked = any(a["linked"] for a in adapters)
    check_rc = not (has_linked and times > 1)
    any_rc = bool(j["read_counts"]["reverse_complemented"])
    try:
        t = tally_info(rows, adapters)
    except fmt.FormatError as e:
        return [C.V("info-unreadable", f"{name}: {e}")], 0
    except Ambiguous:
        raise engine.Discard("same-named-adapters-fit-equally")
    out = compare(name, label, adapters, t, check_rc and label == "R1", any_rc)
    if text_res is not None:
        text = text_res.stdout.decode("latin-1") + "\n" + text_res.stderr
        if "=== Summary ===" in text:
            out += compare_text(name, label, 1 if label == "R1" else 2, parse_text_adapters(text), adapters, t)
    # reads with at least one applied match
    with_adapter = len({C.rid(f[0]) for f in rows})
    key = "read1_with_adapter" if label == "R1" else "read2_with_adapter"
    reported = j["read_counts"][key]
    if adapters and (reported or 0) != with_adapter:
        out.append(C.V("with-adapter-count", f"{name}: {key}={reported} but {with_adapter} reads had a match applied"))
    return out, len(rows)


def mirrored(case):
    m = copy.deepcopy(case)
    for r in m["records"]:
        r[1], r[2] = r[2], r[1]
        r[3], r[5] = r[5], r[3]
        r[4], r[6] = r[6], r[4]
    opts = []
    for g in case["opts"]:
        if g[0] in SWAP:
            opts.append([SWAP[g[0]]] + g[1:])
        elif g[0] in SEARCH_FLAGS:
            opts.append(g)
    m["opts"] = opts
    ext = ".fastq" if case["fmt"] == "fastq" else ".fasta"
    m["outs"] = [["-o", "/simfs/m1" + ext], ["-p", "/simfs/m2" + ext], ["--info-file", "/simfs/minfo.tsv"], ["--json", "/simfs/mreport.json"]]
    m["input"] = {"layout": "two", "ext": ext, "containers": ["", ""], "members": [1, 1]}
    return m


def judge_stamps(case, res, name):
    """Paired --revcomp: per adapter, matches and matches on swapped pairs counted from the read names."""
    out = []
    j = C.load_json_report(res)
    if j is None:
        return [C.V("json-missing", f"{name}: no JSON report")]
    o, p = C._optval(case["outs"], "-o"), C._optval(case["outs"], "-p")
    try:
        _, r1, r2 = C.read_dest(res, {"paths": [o, p], "interleaved": False})
    except (KeyError, fmt.FormatError) as e:
        return [C.V("output-unreadable", f"{name}: {e}")]
    if len(r1) != len(case["records"]):
        raise engine.Discard("not-all-pairs-written")
    any_rc = bool(j["read_counts"]["reverse_complemented"])
    for label, recs, key in (("R1", r1, "adapters_read1"), ("R2", r2, "adapters_read2")):
        n, rc = Counter(), Counter()
        for rec in recs:
            m = STAMP_RC.search(rec[0])
            if not m:
                raise engine.Discard("stamp-missing")
            if m.group(2) != "no_adapter":
                n[m.group(2)] += 1
                rc[m.group(2)] += 1 if m.group(1) else 0
        names = Counter(a["name"] for a in (j[key] or []))
        for nm in names:
            group = [a for a in j[key] if a["name"] == nm]
            if any(a["linked"] for a in group):
                raise engine.Discard("linked-adapter")
            tm = sum(a["total_matches"] for a in group)
            if tm != n[nm]:
                out.append(C.V("match-count", f"{name}: {label} adapter {nm}: total_matches={tm} but {n[nm]} reads carry its name"))
            got = [a["on_reverse_complement"] for a in group]
            want = rc[nm] if any_rc else None
            if (None in got) != (want is None) or (want is not None and sum(g_ or 0 for g_ in got) != want):
                out.append(C.V("reverse-complement-count", f"{name}: {label} adapter {nm}: on_reverse_complement={got} but {want} of its matches are on swapped pairs"))
    return out


def evaluate_paired_revcomp(case, ctx):
    files = engine.gen_files(case)
    ref = C.run_serial(case, ctx, files)
    if ref.exit == 2:
        raise engine.Discard("cli-rejected")
    if ref.exit != 0:
        raise engine.Discard("reference-run-failed")
    viols = judge_stamps(case, ref, "serial")
    par = C.run_parallel(case, ctx, files)
    hv = C.hang_violations(par, "par")
    if hv:
        return viols + hv
    if par.exit != 0:
        if C.is_buffer_too_small(par, case):
            raise engine.Discard("buffer-too-small")
        viols.append(C.V("exit-status", f"par: exit status {par.exit}; stderr tail {par.stderr[-300:]!r}"))
    else:
        viols += judge_stamps(case, par, "par")
    case["meta"]["rows"] = len(case["records"])
    seen, uniq = set(), []
    for v in viols:
        if v["clause"] not in seen:
            seen.add(v["clause"])
            uniq.append(v)
    return uniq


def evaluate(case, ctx):
    if case["meta"].get("paired_revcomp_stamps"):
        return evaluate_paired_revcomp(case, ctx)
    files = engine.gen_files(case)
    _NO_WILDCARDS[0] = any(g[0] == "-N" for g in case["opts"])
    ref = C.run_serial(case, ctx, files)
    if ref.exit == 2:
        raise engine.Discard("cli-rejected")
    if ref.exit != 0:
        raise engine.Discard("reference-run-failed")
    viols, nrows = judge(case, ref, "serial", text_res=ref)
    j = C.load_json_report(ref)
    viols += error_ranges_clause("serial", j)
    case["meta"]["rows"] = nrows
    if case["paired"] and not case["meta"]["revcomp"] and j["adapters_read2"]:
        m = mirrored(case)
        mf = gen.materialize(m)
        mr = ctx.run("mirror", gen.build_argv(m, cores=1), mf, parallel=False)
        if mr.exit == 0:
            jm = dict(j)
            v2, n2 = judge(m, mr, "serial", outs=m["outs"], which="adapters_read2", label="R2", json_from=j, text_res=ref)
            viols += v2
            case["meta"]["rows"] += n2
        else:
            case["meta"]["mirror_failed"] = True
    par = C.run_parallel(case, ctx, files)
    hv = C.hang_violations(par, "par")
    if hv:
        return viols + hv
    if par.exit != 0:
        if C.is_buffer_too_small(par, case):
            raise engine.Discard("buffer-too-small")
        viols.append(C.V("exit-status", f"par: exit status {par.exit}; stderr tail {par.stderr[-300:]!r}"))
    else:
        v3, _ = judge(case, par, "par", text_res=par)
        viols += v3
        jp = C.load_json_report(par)
        for key in ("adapters_read1", "adapters_read2"):
            d_ = C.json_diff(j[key], jp[key])
            if d_:
                viols.append(C.V("merge", f"par: {key} of the multi-core run differs from the single-core run: {d_[:300]}"))
    seen, uniq = set(), []
    for v in viols:
        if v["clause"] not in seen:
            seen.add(v["clause"])
            uniq.append(v)
    return uniq


def nontrivial_key(case, ctx):
    if (case["meta"].get("rows") or 0) < 2:
        return None
    if not ctx.abstract or len(set(ctx.abstract[-1][0])) < 2:
        return None
    kinds = sorted({g[0] + ("linked" if "..." in g[1] else "") for g in case["opts"] if g[0] in SWAP})
    return [C.option_signature(case), kinds, min(case["meta"]["rows"], 20), repr(ctx.abstract[-1]) if ctx.abstract else None]


signature = C.base_signature
sample_view = C.sample_view


def main(seed, tier, args):
    import sys

    n = args.cases or (3000 if tier == "quick" else 60000)
    budget = args.budget or (150 if tier == "quick" else 900)
    rc, ev = engine.run_batch(sys.modules[__name__], seed, tier, n, budget)
    c = ev["coverage"]
    print(f"C20 {tier}: {c['evaluations']} cases judged, {c['distinct_nontrivial']} distinct non-trivial, discards {c['discards_by_reason']}, wall {ev['wall_s']}s")
    return rc
