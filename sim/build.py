"""
Build a private, importable copy of /repo/src/cutadapt (current working tree) outside
/repo and /verif.  The four Cython extensions are compiled from the working tree's .pyx
files; compiled objects are cached by content hash so an unchanged tree costs ~0.1 s.

Nothing here is needed between commands: cache and scratch are recreated on demand.
"""
import atexit
import hashlib
import os
import shutil
import subprocess
import sys
import sysconfig
import tempfile

REPO_SRC = os.environ.get("VERIF_SRC", "/repo/src/cutadapt")
CACHE_ROOT = os.environ.get("VERIF_CACHE", "/var/tmp/cutadapt-verif-cache")
EXT_SUFFIX = sysconfig.get_config_var("EXT_SUFFIX")
PYX = ["_align", "qualtrim", "info", "_kmer_finder"]

_VERSION_PY = '__version__ = version = "0+verif"\n__version_tuple__ = version_tuple = (0, "verif")\n'


def _scratch_parent():
    for d in ("/dev/shm", tempfile.gettempdir()):
        if os.path.isdir(d) and os.access(d, os.W_OK):
            return d
    return tempfile.gettempdir()


def _hash_ext_sources(src):
    h = hashlib.sha256()
    import Cython

    h.update(Cython.__version__.encode())
    h.update(sys.version.encode())
    for name in sorted(os.listdir(src)):
        if name.endswith((".pyx", ".pxd", ".h", ".pxi")):
            h.update(name.encode() + b"\0")
            with open(os.path.join(src, name), "rb") as f:
                h.update(f.read())
            h.update(b"\0")
    return h.hexdigest()[:24]


def _compile_one(args):
    workdir, mod = args
    # cythonize -i builds in place with the same flags setup.py would use
    p = subprocess.run(
        [sys.executable, "-m", "Cython.Build.Cythonize", "-i", "-3", "-q", os.path.join("cutadapt", mod + ".pyx")],
        cwd=os.path.dirname(workdir),  # not the package dir: its json.py would shadow the stdlib
        stdout=subprocess.PIPE,
        stderr=subprocess.STDOUT,
        text=True,
    )
    return mod, p.returncode, p.stdout


def _build_extensions(src, dest_cache):
    from concurrent.futures import ThreadPoolExecutor

    work = tempfile.mkdtemp(prefix="cutadapt-verif-build-", dir=_scratch_parent())
    try:
        pkg = os.path.join(work, "cutadapt")
        os.mkdir(pkg)
        for name in os.listdir(src):
            if name.endswith((".pyx", ".pxd", ".h", ".pxi", ".py")):
                shutil.copy2(os.path.join(src, name), os.path.join(pkg, name))
        with ThreadPoolExecutor(4) as ex:
            results = list(ex.map(_compile_one, [(pkg, m) for m in PYX]))
        for mod, rc, out in results:
            if rc != 0:
                raise RuntimeError(f"building extension {mod} failed:\n{out}")
        tmp = dest_cache + f".tmp{os.getpid()}"
        os.makedirs(tmp, exist_ok=True)
        for m in PYX:
            shutil.copy2(os.path.join(pkg, m + EXT_SUFFIX), os.path.join(tmp, m + EXT_SUFFIX))
        try:
            os.rename(tmp, dest_cache)
        except OSError:
            shutil.rmtree(tmp, ignore_errors=True)  # somebody else was faster
    finally:
        shutil.rmtree(work, ignore_errors=True)


_SCRATCH = []


def cleanup():
    """Remove the scratch copies this process created (also called before os._exit)."""
    for owner, path in list(_SCRATCH):
        if os.getpid() == owner:
            shutil.rmtree(path, ignore_errors=True)
            _SCRATCH.remove((owner, path))


def _remove_stale():
    """Scratch copies of processes that no longer exist (killed runs) are deleted."""
    parent = _scratch_parent()
    try:
        names = os.listdir(parent)
    except OSError:
        return
    for name in names:
        if not name.startswith("cutadapt-verif-src-"):
            continue
        parts = name.split("-")
        try:
            pid = int(parts[3])
        except (IndexError, ValueError):
            continue
        try:
            os.kill(pid, 0)
        except ProcessLookupError:
            shutil.rmtree(os.path.join(parent, name), ignore_errors=True)
        except PermissionError:
            pass


def prepare(src=None, quiet=False):
    """Return a directory to put first on sys.path; it contains package ``cutadapt``."""
    src = src or REPO_SRC
    key = _hash_ext_sources(src)
    cache = os.path.join(CACHE_ROOT, key)
    if not all(os.path.exists(os.path.join(cache, m + EXT_SUFFIX)) for m in PYX):
        os.makedirs(CACHE_ROOT, exist_ok=True)
        if not quiet:
            print(f"[build] compiling Cython extensions from {src} (key {key})", flush=True)
        _build_extensions(src, cache)
    _remove_stale()
    owner = os.getpid()
    scratch = tempfile.mkdtemp(prefix=f"cutadapt-verif-src-{owner:08d}-", dir=_scratch_parent())
    _SCRATCH.append((owner, scratch))
    atexit.register(cleanup)
    pkg = os.path.join(scratch, "cutadapt")
    os.mkdir(pkg)
    for name in os.listdir(src):
        if name.endswith((".py", ".pyi")):
            shutil.copy2(os.path.join(src, name), os.path.join(pkg, name))
    if not os.path.exists(os.path.join(pkg, "_version.py")):
        with open(os.path.join(pkg, "_version.py"), "w") as f:
            f.write(_VERSION_PY)
    for m in PYX:
        shutil.copy2(os.path.join(cache, m + EXT_SUFFIX), os.path.join(pkg, m + EXT_SUFFIX))
    return scratch


def activate(src=None, quiet=False):
    """Build and make ``import cutadapt`` resolve to the private copy."""
    for name in list(sys.modules):
        if name == "cutadapt" or name.startswith("cutadapt."):
            raise RuntimeError("cutadapt was imported before sim.build.activate()")
    path = prepare(src, quiet=quiet)
    sys.path.insert(0, path)
    return path


if __name__ == "__main__":
    import time

    t = time.time()
    p = prepare()
    print(p, f"{time.time()-t:.1f}s")
