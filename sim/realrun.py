"""
Fidelity check of the stubs (DESIGN §6.3): run the same case with the REAL command-line
program -- real files in a temporary directory, real multiprocessing, real pipes -- and
compare with the simulated result.
"""
import os
import shutil
import subprocess
import sys
import tempfile

from . import build, fmt

SIMFS = "/simfs/"


class RealResult:
    pass


LAUNCHER = """import multiprocessing, sys
if __name__ == "__main__":
    multiprocessing.set_start_method(sys.argv[1])
    from cutadapt.cli import main_cli
    sys.argv = sys.argv[1:]
    sys.exit(main_cli())
"""


def run_real(argv, files, src_path, timeout=120, start_method=None):
    """Run `python -m cutadapt <argv>` against the private build at src_path.
    Paths under /simfs/ are mapped into a fresh temporary directory (deleted afterwards)."""
    parent = "/dev/shm" if os.path.isdir("/dev/shm") else tempfile.gettempdir()
    d = tempfile.mkdtemp(prefix="cutadapt-verif-real-", dir=parent)
    try:
        for p, data in files.items():
            with open(os.path.join(d, p[len(SIMFS):]), "wb") as f:
                f.write(data)
        real_argv = [a.replace(SIMFS, d + "/") if isinstance(a, str) else a for a in argv]
        env = dict(os.environ)
        env["PYTHONPATH"] = src_path
        env.pop("PYTHONHASHSEED", None)
        stdin = subprocess.DEVNULL
        if real_argv and real_argv[-1] == "-":
            from . import gen as _gen

            cands = sorted(p for p in files if _gen.is_input_name(p))
            stdin = open(os.path.join(d, cands[0][len(SIMFS):]), "rb")
        cmd = [sys.executable, "-m", "cutadapt"]
        if start_method:
            # the same program with another multiprocessing start method (the default differs between platforms)
            with open(os.path.join(d, "_launch.py"), "w") as f:
                f.write(LAUNCHER)
            cmd = [sys.executable, os.path.join(d, "_launch.py"), start_method]
        try:
            p = subprocess.run(cmd + real_argv, stdin=stdin,
                               stdout=subprocess.PIPE, stderr=subprocess.PIPE, env=env, cwd=d, timeout=timeout)
            rc, out, err, hung = p.returncode, p.stdout, p.stderr.decode("utf-8", "replace"), False
        except subprocess.TimeoutExpired as e:
            rc, out, err, hung = None, e.stdout or b"", (e.stderr or b"").decode("utf-8", "replace"), True
        if stdin is not subprocess.DEVNULL:
            stdin.close()
        r = RealResult()
        r.exit = rc
        r.hung = hung
        r.stdout = out
        r.stderr = err.replace(d + "/", SIMFS)
        r.files = {}
        for name in os.listdir(d):
            if name == "_launch.py":
                continue
            with open(os.path.join(d, name), "rb") as f:
                r.files[SIMFS + name] = f.read()
        return r
    finally:
        shutil.rmtree(d, ignore_errors=True)


def compare(sim, real, input_paths):
    """List of differences between a simulated and a real execution (empty = agree)."""
    diffs = []
    if real.hung:
        return ["real run timed out (hang?)"]
    if sim.exit != real.exit:
        diffs.append(f"exit status sim={sim.exit} real={real.exit}; real stderr tail: {real.stderr[-300:]!r}")
        return diffs
    sf = {p: d for p, d in sim.files.items() if p not in input_paths}
    rf = {p: d for p, d in real.files.items() if p not in input_paths}
    if set(sf) != set(rf):
        diffs.append(f"file sets differ: only sim {sorted(set(sf) - set(rf))}, only real {sorted(set(rf) - set(sf))}")
    for p in sorted(set(sf) & set(rf)):
        if p.endswith("report.json"):
            continue
        try:
            a, b = fmt.decompress(p, sf[p]), fmt.decompress(p, rf[p])
        except fmt.FormatError as e:
            if sf[p] != rf[p]:
                diffs.append(f"{p}: unreadable container and raw bytes differ ({e})")
            continue
        if a != b:
            diffs.append(f"{p}: content differs ({len(a)} vs {len(b)} bytes)")
    # stdout: records only (the report contains the temporary path and timing)
    from props.common import normalize_stream

    def recs(b):
        return b"\n".join(ln for ln in normalize_stream(b).split(b"\n") if not ln.startswith((b"Finished in", b"=== ", b"Total ", b"Reads ", b"Pairs ")))

    if sim.exit == 0 and not any(p for p in sf if p.endswith(("report.json",))) and False:
        pass
    return diffs
