"""
Run the real cutadapt.cli.main() inside the simulation kernel.

install() must be called once per OS process, after sim.build.activate() and before anything
imports cutadapt.runners: it binds ReaderProcess/WorkerProcess to SimProcess and replaces the
seams listed in DESIGN.md §1.
"""
import gc
import hashlib
import io
import logging
import sys

from . import kernel as K
from . import simfs

_INSTALLED = False
_mods = {}


class _FakeTime:
    """The name `time` inside cutadapt modules: a logical clock (no real clock is read)."""

    def __init__(self):
        self.t = 0.0

    def time(self):
        self.t += 0.001
        return self.t

    def perf_counter(self):
        return self.time()

    def sleep(self, s):
        raise K.HarnessError("cutadapt called time.sleep(); not modelled")


class _FakeResource:
    """The name `resource` inside cutadapt.files: the descriptor limit of the simulated process."""

    RLIMIT_NOFILE = 7

    def __init__(self):
        self.soft, self.hard, self.raised = 1024, 4096, 0

    def getrlimit(self, which):
        return (self.soft, self.hard)

    def setrlimit(self, which, limits):
        self.soft, self.hard = limits
        self.raised += 1


CPUS = [16]


class _CpuCount:
    @staticmethod
    def cpu_count():
        return CPUS[0]


def _open_with_fake_proc_status(path, *args, **kwargs):
    if path == "/proc/self/status":
        return io.StringIO(f"Name:\tcutadapt\nCpus_allowed:\t{(1 << CPUS[0]) - 1:x}\nCpus_allowed_list:\t0-{CPUS[0] - 1}\n")
    return open(path, *args, **kwargs)


class _TtyStderr(io.StringIO):
    """Standard error that is a terminal. The animated progress line ('\\r[...]' updates and the
    newline that ends it) is kept apart from everything else written to it."""

    def __init__(self):
        super().__init__()
        self.progress = []
        self._after_progress = False

    def isatty(self):
        return True

    def write(self, s):
        if s.startswith("\r"):
            self.progress.append(s)
            self._after_progress = True
            return len(s)
        if s == "\n" and self._after_progress:
            self.progress.append(s)
            self._after_progress = False
            return 1
        self._after_progress = False
        return super().write(s)


def install():
    global _INSTALLED
    if _INSTALLED:
        return
    import multiprocessing

    if "cutadapt.runners" in sys.modules:
        raise K.HarnessError("cutadapt.runners imported before harness.install()")
    real_get_context = multiprocessing.get_context
    multiprocessing.get_context = lambda method=None: K.SimContext
    try:
        import cutadapt.runners as runners
    finally:
        multiprocessing.get_context = real_get_context
    import cutadapt.adapters as adapters
    import cutadapt.cli as cli
    import cutadapt.files as files
    import cutadapt.utils as utils

    assert issubclass(runners.ReaderProcess, K.SimProcess)
    assert issubclass(runners.WorkerProcess, K.SimProcess)
    runners.multiprocessing = K.MultiprocessingShim
    files.xopen = simfs.sim_xopen
    files.resource = _FakeResource()
    simfs.RESOURCE = files.resource
    # the number of CPUs the process may run on (cpuset / affinity of a cluster job or container)
    utils.multiprocessing = _CpuCount()
    utils.open = _open_with_fake_proc_status
    ft = _FakeTime()
    cli.time = ft
    adapters.time = ft
    utils.time = ft
    _mods.update(runners=runners, adapters=adapters, cli=cli, files=files, time=ft)
    from . import procimage

    _mods["space"] = procimage.Space()
    _INSTALLED = True


class _Stdout(io.TextIOWrapper):
    """Text layer over the captured stdout buffer; close() leaves the buffer readable."""

    def close(self):
        try:
            self.flush()
        except Exception:
            pass


class _NoFilenoStdin(io.StringIO):
    def fileno(self):
        raise io.UnsupportedOperation("fileno")


def _open_stdin(data, kind):
    """A real descriptor for the simulated standard input (like the interpreter's fd 0):
    /dev/null, a regular file, or - for data that fits into a pipe buffer - the read end of a
    pipe whose write end is already closed (not seekable, reads are still deterministic).
    Returns (fd, identity for the clean-up)."""
    import fcntl
    import os

    if data is None:
        fd = os.open(os.devnull, os.O_RDONLY)
    elif kind == "pipe" and len(data) <= (1 << 20) - 4096:
        fd, w = os.pipe()
        try:
            fcntl.fcntl(w, 1031, 1 << 20)  # F_SETPIPE_SZ
            os.write(w, data)
        finally:
            os.close(w)
    else:
        path = simfs.root() + "/.stdin-data"
        with open(path, "wb") as f:
            f.write(data)
        fd = os.open(path, os.O_RDONLY)
        os.unlink(path)
    st = os.fstat(fd)
    return fd, (st.st_ino, st.st_dev)


def _close_stdin(fd, ident, objects):
    import os

    seen = set()
    for o in objects:
        if o is None or id(o) in seen:
            continue
        seen.add(id(o))
        try:
            o.close()
        except Exception:
            pass
    try:
        st = os.fstat(fd)
        if (st.st_ino, st.st_dev) == ident:
            os.close(fd)
    except OSError:
        pass


class _ErrorRecorder(logging.Filter):
    def __init__(self):
        super().__init__()
        self.messages = []

    def filter(self, record):
        if record.levelno >= logging.ERROR:
            try:
                self.messages.append(record.getMessage())
            except Exception:
                self.messages.append(str(record.msg))
        return True


class RunResult:
    __slots__ = (
        "outcome", "exit", "files", "stdout", "stderr", "log_digest", "choices", "steps",
        "probes", "blocked", "n_tasks", "log", "fs_events", "main_exc", "enabled_sizes",
        "alive_at_end", "markers", "error_logs", "progress", "env_fired",
    )

    def ok(self):
        return self.outcome == "finished" and self.exit == 0

    def error_reported(self):
        """An error message reached the user: an ERROR-level log record whose text is on
        stderr, or a traceback."""
        if "Traceback (most recent call last)" in self.stderr:
            return True
        return any(m.strip() and m.strip().splitlines()[0] in self.stderr for m in self.error_logs)


def run_sim(argv, files, chooser, capacity=65536, feeder=True, step_cap=K.STEP_CAP_DEFAULT,
            keep_log=False, env=None):
    """
    One simulated execution of `cutadapt <argv>` on the SimFS content `files` ({path: bytes}).
    env: the environment of the simulated machine - start_method ('spawn' | 'fork'),
    tty (standard error is a terminal), piped_exts (compressed formats written through an
    external program when threads > 0), emfile_at (the n-th open fails once with EMFILE).
    """
    install()
    env = env or {}
    cli = _mods["cli"]
    adapters = _mods["adapters"]
    space = _mods["space"]
    # per-run reset of process-global state (DESIGN §1)
    space.reset()
    adapters._generate_adapter_name.__defaults__[0][0] = 1
    res_ = _mods["files"].resource
    res_.soft, res_.hard, res_.raised = 1024, 4096, 0
    simfs.begin_run(env)
    CPUS[0] = env.get("cpus") or 16
    _mods["time"].t = 0.0
    root = logging.getLogger()
    saved_handlers, saved_level = root.handlers[:], root.level
    root.handlers = []
    recorder = _ErrorRecorder()
    root.addFilter(recorder)
    simfs.populate(files)
    import os

    devfds = []
    if env.get("devfd_paths") and all(len(files[p]) <= (1 << 20) - 4096 for p in env["devfd_paths"]):
        # process substitution, 'cutadapt ... <(producer)': each input is a pipe named /dev/fd/N
        import fcntl

        mapping = {}
        for p in env["devfd_paths"]:
            r_, w_ = os.pipe()
            try:
                fcntl.fcntl(w_, 1031, 1 << 20)  # F_SETPIPE_SZ
                os.write(w_, files[p])
            finally:
                os.close(w_)
            devfds.append(r_)
            mapping[p] = f"/dev/fd/{r_}"
        argv = [mapping.get(a, a) for a in argv]
    saved_cwd = os.getcwd()
    if env.get("relpaths"):
        # the user works inside the data directory: every path on the command line is relative
        os.chdir(simfs.root())
        argv = [a.replace(simfs.PREFIX, "") if isinstance(a, str) else a for a in argv]
    else:
        argv = [simfs.to_real(a) for a in argv]
    out_buf = simfs.CapturedStdoutBuffer()
    saved_std = (sys.stdin, sys.stdout, sys.stderr)
    stdin_data = files.get(env["stdin_path"]) if env.get("stdin_path") else None
    stdin_fd, stdin_ident = _open_stdin(stdin_data, env.get("stdin_kind"))
    sys.stdin = open(stdin_fd, "r", closefd=False)
    sys.stdout = _Stdout(out_buf, encoding="utf-8", write_through=True)
    sys.stderr = _TtyStderr() if env.get("tty") else io.StringIO()
    import threading

    threads_before = set(threading.enumerate())
    kern = K.Kernel(chooser, capacity=capacity, feeder=feeder, step_cap=step_cap)
    kern.start_method = env.get("start_method", "spawn")
    from . import procimage

    kern.images = procimage.Images(space, kern.start_method)
    kern.images.stdin_of[0] = sys.stdin
    simfs._STDOUT_BUF = out_buf
    res = RunResult()

    saved_argv = sys.argv

    def main_task():
        # the process entry point, as `python -m cutadapt` and the console script run it
        sys.argv = ["cutadapt"] + list(argv)
        sys.exit(cli.main_cli())

    try:
        try:
            kern.run(main_task)
        finally:
            # what interpreter shutdown would flush: drop everything and collect
            main_task = None
            gc.collect()
            try:
                sys.stdout.flush()
            except Exception:
                pass
            res.stderr = simfs.to_sim(sys.stderr.getvalue())
            res.progress = "".join(getattr(sys.stderr, "progress", []))
            sys.argv = saved_argv
            os.chdir(saved_cwd)
            for fd_ in devfds:
                try:
                    os.close(fd_)
                except OSError:
                    pass
            stdin_objects = list(kern.images.stdin_of.values()) + [sys.stdin]
            sys.stdin, sys.stdout, sys.stderr = saved_std
            _close_stdin(stdin_fd, stdin_ident, stdin_objects)
            for h in root.handlers:
                try:
                    h.close()
                except Exception:
                    pass
            root.handlers = saved_handlers
            root.setLevel(saved_level)
            root.removeFilter(recorder)
            simfs._STDOUT_BUF = None
    except K.HarnessError:
        raise
    # threads that cutadapt itself started inside a (simulated) process: the interpreter joins every
    # non-daemon thread before it exits, so one that never ends keeps the real process alive for ever
    leaked = []
    for th in threading.enumerate():
        if th in threads_before or th.daemon or th.name.startswith("sim-"):
            continue
        th.join(2.0)
        if th.is_alive():
            leaked.append(th.name)
    main = kern.tasks[0]
    res.outcome = kern.outcome
    if leaked and kern.outcome == "finished":
        res.outcome = "deadlock"
        kern.blocked_report = [f"interpreter exit: joining non-daemon thread {n} that never ends" for n in leaked]
        kern.probe("non_daemon_thread_alive_at_exit", len(leaked))
    res.exit = main.exitcode if kern.outcome == "finished" else None
    res.files = simfs.snapshot()
    res.stdout = out_buf.getvalue().replace(simfs.root().encode() + b"/", simfs.PREFIX.encode())
    if devfds:
        # descriptor numbers are an accident of the process: keep them out of everything that is compared
        res.stdout = _DEVFD_RE.sub(b"/dev/fd/N", res.stdout)
        res.stderr = _DEVFD_RE.sub(b"/dev/fd/N", res.stderr.encode()).decode()
        res.files = {p: (_DEVFD_RE.sub(b"/dev/fd/N", d) if p.endswith(".json") else d) for p, d in res.files.items()}
    res.choices = kern.choices
    res.enabled_sizes = kern.enabled_sizes
    res.steps = kern.step
    res.probes = kern.probes
    for k_, v_ in simfs.FIRED.items():
        res.probes["env_" + k_] = res.probes.get("env_" + k_, 0) + v_
    if res_.raised:
        res.probes["env_rlimit_raised"] = res_.raised
    if kern.images.nonempty:
        res.probes["process_image_differs_from_pristine_at_switch"] = kern.images.nonempty
    res.env_fired = dict(simfs.FIRED)
    res.blocked = kern.blocked_report
    res.n_tasks = len(kern.tasks)
    res.fs_events = None
    res.main_exc = main.exc_text
    res.markers = kern.markers
    res.error_logs = [simfs.to_sim(m) for m in recorder.messages]
    if devfds:
        res.error_logs = [_DEVFD_RE.sub(b"/dev/fd/N", m.encode()).decode() for m in res.error_logs]
    res.alive_at_end = getattr(kern, "alive_at_main_exit", [])
    h = hashlib.sha1()
    for ev in kern.log:
        h.update(repr(ev).encode())
    res.log_digest = h.hexdigest()
    res.log = kern.log if keep_log else None
    return res


import re as _re

_SCRATCH_RE = _re.compile(r"cutadapt-verif-src-\d+-\w+")
_DEVFD_RE = _re.compile(rb"/dev/fd/\d+")
_ADDR_RE = _re.compile(rb"0x[0-9a-f]{8,}")  # object addresses in --debug output


def content_digest(res):
    h = hashlib.sha1()
    for p in sorted(res.files):
        h.update(p.encode() + b"\0" + res.files[p] + b"\0")
    h.update(_ADDR_RE.sub(b"0xX", res.stdout))
    # tracebacks name the private source copy, whose directory name contains pid and a random
    # suffix (constant length, so message sizes and hence schedules do not depend on it)
    h.update(_ADDR_RE.sub(b"0xX", _SCRATCH_RE.sub("cutadapt-verif-src-X", res.stderr).encode()))
    h.update(repr((res.outcome, res.exit)).encode())
    return h.hexdigest()
