"""
Run the real cutadapt.cli.main() inside the simulation kernel.

install() must be called once per OS process, after sim.build.activate() and before anything
imports cutadapt.runners: it binds ReaderProcess/WorkerProcess to SimProcess and replaces the
seams listed in DESIGN.md §1.
"""
import gc
import hashlib
import io
import logging
import sys

from . import kernel as K
from . import simfs

_INSTALLED = False
_mods = {}


class _FakeTime:
    """The name `time` inside cutadapt modules: a logical clock (no real clock is read)."""

    def __init__(self):
        self.t = 0.0

    def time(self):
        self.t += 0.001
        return self.t

    def perf_counter(self):
        return self.time()

    def sleep(self, s):
        raise K.HarnessError("cutadapt called time.sleep(); not modelled")


def install():
    global _INSTALLED
    if _INSTALLED:
        return
    import multiprocessing

    if "cutadapt.runners" in sys.modules:
        raise K.HarnessError("cutadapt.runners imported before harness.install()")
    real_get_context = multiprocessing.get_context
    multiprocessing.get_context = lambda method=None: K.SimContext
    try:
        import cutadapt.runners as runners
    finally:
        multiprocessing.get_context = real_get_context
    import cutadapt.adapters as adapters
    import cutadapt.cli as cli
    import cutadapt.files as files
    import cutadapt.utils as utils

    assert issubclass(runners.ReaderProcess, K.SimProcess)
    assert issubclass(runners.WorkerProcess, K.SimProcess)
    runners.multiprocessing = K.MultiprocessingShim
    files.xopen = simfs.sim_xopen
    ft = _FakeTime()
    cli.time = ft
    adapters.time = ft
    utils.time = ft
    _mods.update(runners=runners, adapters=adapters, cli=cli, files=files, time=ft)
    _snapshot_module_state()
    _INSTALLED = True


_GLOBAL_SNAPSHOT = []  # (container object, pristine deep copy)


def _snapshot_module_state():
    """
    A real cutadapt run starts in a fresh interpreter. Simulated runs share one interpreter,
    so every mutable container reachable as a module global, class attribute or function
    default of a cutadapt module (caches, counters such as _generate_adapter_name's [1]) is
    recorded here once and restored before every run.
    """
    import copy
    import enum
    import inspect

    seen = set()

    def note(obj):
        if isinstance(obj, (dict, list, set)) and id(obj) not in seen:
            seen.add(id(obj))
            try:
                _GLOBAL_SNAPSHOT.append((obj, copy.deepcopy(obj)))
            except Exception:
                pass

    for modname, module in list(sys.modules.items()):
        if not (modname == "cutadapt" or modname.startswith("cutadapt.")) or module is None:
            continue
        for name, val in list(vars(module).items()):
            if name.startswith("__"):
                continue
            note(val)
            if inspect.isclass(val) and issubclass(val, enum.Enum):
                continue
            if inspect.isclass(val) and getattr(val, "__module__", None) == modname:
                for an, av in list(vars(val).items()):
                    if not an.startswith("__"):
                        note(av)
                    f = getattr(av, "__func__", av)
                    for d in (getattr(f, "__defaults__", None) or ()):
                        note(d)
            elif inspect.isfunction(val) and getattr(val, "__module__", None) == modname:
                for d in (val.__defaults__ or ()):
                    note(d)
                for d in (val.__kwdefaults__ or {}).values():
                    note(d)


def _restore_module_state():
    import copy

    for obj, pristine in _GLOBAL_SNAPSHOT:
        fresh = copy.deepcopy(pristine)
        if isinstance(obj, dict):
            obj.clear()
            obj.update(fresh)
        elif isinstance(obj, list):
            obj[:] = fresh
        else:
            obj.clear()
            obj.update(fresh)


class _Stdout(io.TextIOWrapper):
    """Text layer over the captured stdout buffer; close() leaves the buffer readable."""

    def close(self):
        try:
            self.flush()
        except Exception:
            pass


class _NoFilenoStdin(io.StringIO):
    def fileno(self):
        raise io.UnsupportedOperation("fileno")


class _ErrorRecorder(logging.Filter):
    def __init__(self):
        super().__init__()
        self.messages = []

    def filter(self, record):
        if record.levelno >= logging.ERROR:
            try:
                self.messages.append(record.getMessage())
            except Exception:
                self.messages.append(str(record.msg))
        return True


class RunResult:
    __slots__ = (
        "outcome", "exit", "files", "stdout", "stderr", "log_digest", "choices", "steps",
        "probes", "blocked", "n_tasks", "log", "fs_events", "main_exc", "enabled_sizes",
        "alive_at_end", "markers", "error_logs",
    )

    def ok(self):
        return self.outcome == "finished" and self.exit == 0

    def error_reported(self):
        """An error message reached the user: an ERROR-level log record whose text is on
        stderr, or a traceback."""
        if "Traceback (most recent call last)" in self.stderr:
            return True
        return any(m.strip() and m.strip().splitlines()[0] in self.stderr for m in self.error_logs)


def run_sim(argv, files, chooser, capacity=65536, feeder=True, step_cap=K.STEP_CAP_DEFAULT,
            keep_log=False):
    """
    One simulated execution of `cutadapt <argv>` on the SimFS content `files` ({path: bytes}).
    """
    install()
    cli = _mods["cli"]
    adapters = _mods["adapters"]
    # per-run reset of process-global state (DESIGN §1)
    _restore_module_state()
    adapters._generate_adapter_name.__defaults__[0][0] = 1
    _mods["time"].t = 0.0
    root = logging.getLogger()
    saved_handlers, saved_level = root.handlers[:], root.level
    root.handlers = []
    recorder = _ErrorRecorder()
    root.addFilter(recorder)
    simfs.populate(files)
    argv = [simfs.to_real(a) for a in argv]
    out_buf = simfs.CapturedStdoutBuffer()
    saved_std = (sys.stdin, sys.stdout, sys.stderr)
    sys.stdin = _NoFilenoStdin("")
    sys.stdout = _Stdout(out_buf, encoding="utf-8", write_through=True)
    sys.stderr = io.StringIO()
    kern = K.Kernel(chooser, capacity=capacity, feeder=feeder, step_cap=step_cap)
    simfs._STDOUT_BUF = out_buf
    res = RunResult()

    def main_task():
        cli.main(list(argv))

    try:
        try:
            kern.run(main_task)
        finally:
            # what interpreter shutdown would flush: drop everything and collect
            main_task = None
            gc.collect()
            try:
                sys.stdout.flush()
            except Exception:
                pass
            res.stderr = simfs.to_sim(sys.stderr.getvalue())
            sys.stdin, sys.stdout, sys.stderr = saved_std
            for h in root.handlers:
                try:
                    h.close()
                except Exception:
                    pass
            root.handlers = saved_handlers
            root.setLevel(saved_level)
            root.removeFilter(recorder)
            simfs._STDOUT_BUF = None
    except K.HarnessError:
        raise
    main = kern.tasks[0]
    res.outcome = kern.outcome
    res.exit = main.exitcode if kern.outcome == "finished" else None
    res.files = simfs.snapshot()
    res.stdout = out_buf.getvalue().replace(simfs.root().encode() + b"/", simfs.PREFIX.encode())
    res.choices = kern.choices
    res.enabled_sizes = kern.enabled_sizes
    res.steps = kern.step
    res.probes = kern.probes
    res.blocked = kern.blocked_report
    res.n_tasks = len(kern.tasks)
    res.fs_events = None
    res.main_exc = main.exc_text
    res.markers = kern.markers
    res.error_logs = [simfs.to_sim(m) for m in recorder.messages]
    res.alive_at_end = getattr(kern, "alive_at_main_exit", [])
    h = hashlib.sha1()
    for ev in kern.log:
        h.update(repr(ev).encode())
    res.log_digest = h.hexdigest()
    res.log = kern.log if keep_log else None
    return res


import re as _re

_SCRATCH_RE = _re.compile(r"cutadapt-verif-src-\d+-\w+")


def content_digest(res):
    h = hashlib.sha1()
    for p in sorted(res.files):
        h.update(p.encode() + b"\0" + res.files[p] + b"\0")
    h.update(res.stdout)
    # tracebacks name the private source copy, whose directory name contains pid and a random
    # suffix (constant length, so message sizes and hence schedules do not depend on it)
    h.update(_SCRATCH_RE.sub("cutadapt-verif-src-X", res.stderr).encode())
    h.update(repr((res.outcome, res.exit)).encode())
    return h.hexdigest()
