"""
Storage faults (DESIGN §3.4), applied to the SimFS input files before a run.

Record-level faults edit the plain text of one input stream and are applied before
compression; byte-level faults (truncate, gz_flip) edit the stored bytes afterwards.
All positions are clamped so that a shrunk case stays well-defined.
"""
from . import fmt, gen

RECORD_LEVEL = {"drop_record", "bad_byte", "qual_len", "drop_line", "dup_line", "bad_lead", "mate_missing", "mate_rename", "flip_base", "blank_line"}
BYTE_LEVEL = {"truncate", "gz_flip"}
PLAIN_LEVEL = {"truncate_plain", "zero_fill"}  # the producer was cut short, the compressor finished its stream properly


def _split_lines(plain):
    text = plain.decode("latin-1")
    lines = text.split("\n")
    if lines and lines[-1] == "":
        lines.pop()
    return lines


def _join(lines):
    return ("\n".join(lines) + ("\n" if lines else "")).encode("latin-1")


def _apply_record_fault(f, plain, fastq, interleaved):
    per = 4 if fastq else 2
    lines = _split_lines(plain)
    nrec = len(lines) // per
    kind = f["kind"]
    if nrec == 0:
        return plain
    rec = min(max(f.get("rec", 0), 0), nrec - 1)
    base = rec * per
    if kind == "qual_len":
        q = lines[base + 3]
        d = f["delta"]
        lines[base + 3] = q + "I" * d if d > 0 else q[: max(0, len(q) + d)]
        if d < 0 and len(q) == 0:
            lines[base + 3] = "I"
    elif kind == "drop_line":
        del lines[base + f["line"] % per]
    elif kind == "dup_line":
        i = base + f["line"] % per
        lines.insert(i, lines[i])
    elif kind == "blank_line":
        lines.insert(base + f["line"] % per, "")
    elif kind == "bad_lead":
        i = base + (0 if f["which"] == 0 else 2)
        lines[i] = f["char"] + lines[i][1:]
    elif kind == "mate_missing":
        k = max(1, min(f.get("k", 1), nrec))
        if interleaved:
            del lines[-per:]  # odd number of records
        else:
            del lines[-per * k :]
    elif kind == "mate_rename":
        i = base
        lines[i] = lines[i].replace("rd", "xq", 1)
    elif kind == "drop_record":
        # a mate missing in the middle of one file: every later pair is out of step
        del lines[base : base + per]
    elif kind == "bad_byte":
        # a non-ASCII byte inside the sequence or quality line (lengths stay equal)
        i = base + f["line"] % per
        ln = lines[i]
        if ln:
            q = f.get("pos", 0) % len(ln)
            lines[i] = ln[:q] + "\xe9" + ln[q + 1 :]
        else:
            lines[i] = "\xe9"
    elif kind == "flip_base":
        s = lines[base + 1]
        if s:
            p = f.get("pos", 0) % len(s)
            lines[base + 1] = s[:p] + ("A" if s[p] != "A" else "C") + s[p + 1 :]
    else:
        raise ValueError(kind)
    return _join(lines)


def apply(case, files):
    """Return the SimFS files of `case` with its faults applied."""
    fl = case.get("faults") or []
    if not fl:
        return files
    import random

    inp = case["input"]
    paths = gen.input_paths(case)
    fastq = case["fmt"] == "fastq"
    interleaved = inp["layout"] == "interleaved"
    bam = bool(inp.get("bam"))
    rec_faults = [f for f in fl if f["kind"] in RECORD_LEVEL and not bam]
    plain_faults = [f for f in fl if f["kind"] in PLAIN_LEVEL]
    out = dict(files)
    if rec_faults or plain_faults:
        plains = gen.plain_streams(case)
        for f in rec_faults:
            i = min(f.get("file", 0), len(plains) - 1)
            plains[i] = _apply_record_fault(f, plains[i], fastq, interleaved)
        plains = [gen.style_plain(case, pl) for pl in plains]
        for f in plain_faults:
            i = min(f.get("file", 0), len(plains) - 1)
            kept = plains[i][: max(0, min(f["offset"], len(plains[i])))]
            if f["kind"] == "zero_fill":
                # an interrupted copy into a preallocated file, or block padding: zero bytes up to a block boundary
                block = f.get("block", 512)
                size = max(len(plains[i]) if f.get("to_full_size") else len(kept) + 1, len(kept) + 1)
                size = -(-size // block) * block
                kept = kept + b"\0" * (size - len(kept))
            plains[i] = kept
        for i, p in enumerate(paths):
            r = random.Random(case.get("member_seed", 0) * 31 + i)
            out[p] = fmt.compress(".gz" if bam else inp["containers"][i], plains[i], rng=r, members=inp["members"][i])
    for f in fl:
        if f["kind"] not in BYTE_LEVEL:
            continue
        p = paths[min(f.get("file", 0), len(paths) - 1)]
        data = out[p]
        if f["kind"] == "truncate":
            out[p] = data[: max(0, min(f["offset"], len(data)))]
        elif f["kind"] == "gz_flip":
            if data:
                o = min(max(f["offset"], 0), len(data) - 1)
                b = bytearray(data)
                b[o] ^= 1 << (f.get("bit", 0) % 8)
                out[p] = bytes(b)
    return out
