"""
Per-process images of interpreter-global state.

Simulated processes are threads of one interpreter, so module globals, class attributes and
function defaults of the cutadapt modules would be shared between "processes" - which no real
start method does. This module gives every simulated process its own image of that state:

* before every run the state is put back to what a fresh interpreter has after importing
  cutadapt (`reset`);
* at every context switch the kernel calls `switch(tid)`: the outgoing process's differences
  from the pristine state are saved and undone, the incoming process's are applied;
* a child started with the *spawn* method begins with the pristine image (a fresh interpreter
  that imports the modules again), one started with *fork* begins with a copy of its parent's.

Tracked: every non-dunder name in the namespace of each cutadapt module and of each Python
class defined there (rebinding, addition, deletion; by identity), plus the mutable containers
reachable from them and from function defaults (changed in place; by value).
"""
import copy
import enum
import inspect
import sys

_MISSING = object()


class Space:
    def __init__(self):
        self.owners = []  # (owner, {name: pristine value}, size of the namespace)
        self.containers = []  # (object, pristine deep copy)
        seen = set()

        def note(obj):
            if isinstance(obj, (dict, list, set)) and id(obj) not in seen:
                seen.add(id(obj))
                try:
                    self.containers.append((obj, copy.deepcopy(obj)))
                except Exception:
                    pass

        def settable(owner):
            for name, val in vars(owner).items():
                if not name.startswith("__"):
                    try:
                        setattr(owner, name, val)
                    except (TypeError, AttributeError):
                        return False
                    return True
            return False

        for modname in sorted(sys.modules):
            module = sys.modules[modname]
            if not (modname == "cutadapt" or modname.startswith("cutadapt.")) or module is None:
                continue
            is_ext = not getattr(module, "__file__", "x.py").endswith(".py")
            if not is_ext:
                self.owners.append((module, {n: v for n, v in vars(module).items() if not n.startswith("__")}, len(vars(module))))
            for name, val in list(vars(module).items()):
                if name.startswith("__"):
                    continue
                note(val)
                if inspect.isclass(val) and issubclass(val, enum.Enum):
                    continue
                if inspect.isclass(val) and getattr(val, "__module__", None) == modname:
                    if not is_ext and settable(val):
                        self.owners.append((val, {n: v for n, v in vars(val).items() if not n.startswith("__")}, len(vars(val))))
                    for an, av in list(vars(val).items()):
                        if not an.startswith("__"):
                            note(av)
                        f = getattr(av, "__func__", av)
                        for d in (getattr(f, "__defaults__", None) or ()):
                            note(d)
                elif inspect.isfunction(val) and getattr(val, "__module__", None) == modname:
                    for d in (val.__defaults__ or ()):
                        note(d)
                    for d in (val.__kwdefaults__ or {}).values():
                        note(d)

    # an image is (attrs, conts): attrs = [(owner index, name, value or _MISSING)],
    # conts = [(container index, private deep copy of its content)]
    def delta(self):
        attrs, conts = [], []
        for oi, (owner, prist, n0) in enumerate(self.owners):
            d = vars(owner)
            for name, pv in prist.items():
                cur = d.get(name, _MISSING)
                if cur is not pv:
                    attrs.append((oi, name, cur))
            if len(d) != n0:
                for name in list(d):
                    if name not in prist and not name.startswith("__"):
                        attrs.append((oi, name, d[name]))
        for ci, (obj, prist) in enumerate(self.containers):
            if obj != prist:
                conts.append((ci, copy.deepcopy(obj)))
        return attrs, conts

    def _undo(self, image):
        attrs, conts = image
        for oi, name, _ in attrs:
            owner, prist, _n0 = self.owners[oi]
            if name in prist:
                setattr(owner, name, prist[name])
            else:
                try:
                    delattr(owner, name)
                except AttributeError:
                    pass
        for ci, _ in conts:
            self._fill(self.containers[ci][0], copy.deepcopy(self.containers[ci][1]))

    def _apply(self, image):
        attrs, conts = image
        for oi, name, val in attrs:
            owner = self.owners[oi][0]
            if val is _MISSING:
                try:
                    delattr(owner, name)
                except AttributeError:
                    pass
            else:
                setattr(owner, name, val)
        for ci, content in conts:
            self._fill(self.containers[ci][0], copy.deepcopy(content))

    @staticmethod
    def _fill(obj, content):
        if isinstance(obj, list):
            obj[:] = content
        else:
            obj.clear()
            obj.update(content)

    def reset(self):
        self._undo(self.delta())


EMPTY = ([], [])


class Images:
    """The images of the processes of one simulated run; `current` is the one that is live."""

    def __init__(self, space, start_method):
        self.space = space
        self.start_method = start_method
        self.current = 0
        self.saved = {}
        self.switches = 0
        self.nonempty = 0
        self.stdin_of = {}  # sys.stdin of each process (multiprocessing gives children /dev/null)

    def switch(self, tid):
        if tid == self.current:
            return
        sp = self.space
        image = sp.delta()
        self.saved[self.current] = image
        if image[0] or image[1]:
            sp._undo(image)
            self.nonempty += 1
        nxt = self.saved.get(tid, EMPTY)
        if nxt[0] or nxt[1]:
            sp._apply(nxt)
        self.stdin_of[self.current] = sys.stdin
        if tid in self.stdin_of:
            sys.stdin = self.stdin_of[tid]
        self.current = tid
        self.switches += 1

    def on_start(self, parent_tid, child_tid):
        """Called by the parent (which is the live image) when it starts a child."""
        if self.start_method == "fork":
            attrs, conts = self.space.delta()
            self.saved[child_tid] = (list(attrs), [(ci, copy.deepcopy(c)) for ci, c in conts])
        else:
            self.saved[child_tid] = EMPTY
        # multiprocessing's bootstrap (util._close_stdin) gives every child /dev/null as sys.stdin
        import os

        self.stdin_of[child_tid] = open(os.devnull)
