"""
Deterministic kernel: simulated OS processes as parked threads, pipes, a queue with a feeder
stage, wait(), start/join/terminate -- every inter-process operation is a yield point and a
chooser (seeded policy or explicit replay list) decides who runs next.

Exactly one thread is runnable at any time (baton passing), so the execution is a pure
function of the chooser's decisions.
"""
import pickle
import sys
import threading
import traceback

_CURRENT = None  # the kernel of the run in progress (one run at a time per OS process)


def current_kernel():
    if _CURRENT is None:
        raise RuntimeError("no simulation kernel is active")
    return _CURRENT


class SimKilled(BaseException):
    """Raised inside a terminated task to unwind it (not caught by `except Exception`)."""


class HarnessError(Exception):
    """The simulator itself is broken (never reported as a property violation)."""


NEW, RUNNABLE, DONE = "new", "runnable", "done"

STEP_CAP_DEFAULT = 200_000


class Task:
    __slots__ = (
        "tid", "name", "target", "thread", "go", "state", "pred", "desc", "killed",
        "exitcode", "parent", "children", "exc_text", "result", "daemon", "steps",
        "wait_obj",
    )

    def __init__(self, tid, name, target, parent):
        self.tid = tid
        self.name = name
        self.target = target
        self.thread = None
        self.go = threading.Semaphore(0)
        self.state = NEW
        self.pred = None  # callable -> bool: may the task take its next step?
        self.desc = ("start", None)
        self.killed = False
        self.exitcode = None
        self.parent = parent
        self.children = []  # parent-side SimProcess objects
        self.exc_text = None
        self.result = None
        self.daemon = False
        self.steps = 0
        self.wait_obj = None


class Channel:
    __slots__ = ("cid", "capacity", "msgs", "used", "taken_seq", "put_seq")

    def __init__(self, cid, capacity):
        self.cid = cid
        self.capacity = capacity  # bytes, None = unbounded
        self.msgs = []  # list of bytes
        self.used = 0
        self.taken_seq = 0
        self.put_seq = 0


class QueueState:
    __slots__ = ("qid", "shared", "pending")

    def __init__(self, qid):
        self.qid = qid
        self.shared = []  # items visible to get()
        self.pending = {}  # producer tid -> list of items not yet fed


class Kernel:
    def __init__(self, chooser, capacity=65536, feeder=True, step_cap=STEP_CAP_DEFAULT):
        self.chooser = chooser
        self.capacity = capacity
        self.feeder = feeder
        self.step_cap = step_cap
        self.tasks = []
        self.channels = {}
        self.queues = {}
        self.log = []  # (step, task name, op, object id, size)
        self.choices = []  # index into the sorted enabled set, per step
        self.enabled_sizes = []
        self.step = 0
        self.outcome = None  # "finished" | "deadlock" | "no-progress"
        self.blocked_report = None
        self._sem = threading.Semaphore(0)
        self._current = None
        self._name_counts = {}
        self.probes = {}
        self.markers = []  # (task name, channel) of every -2 error marker sent
        self.harness_error = None
        self.images = None  # procimage.Images: per-process interpreter state
        self.start_method = "spawn"
        self.open_pipes = []  # simfs.PipedWriter objects (external compressor processes)

    # ------------------------------------------------------------------ helpers
    def probe(self, name, n=1):
        self.probes[name] = self.probes.get(name, 0) + n

    def current_task(self):
        t = self._current
        if t is None or threading.current_thread() is not t.thread:
            raise HarnessError("simulated primitive called outside a simulated task")
        return t

    def _emit(self, task, op, obj=None, size=None):
        self.log.append((self.step, task.name if task else "-", op, obj, size))

    def new_channel(self):
        cid = len(self.channels)
        ch = Channel(cid, self.capacity)
        self.channels[cid] = ch
        return ch

    def new_queue(self):
        qid = len(self.queues)
        q = QueueState(qid)
        self.queues[qid] = q
        return q

    def unique_name(self, base):
        n = self._name_counts.get(base, 0)
        self._name_counts[base] = n + 1
        return base if n == 0 and base in ("main", "reader") else f"{base}-{n}"

    # ------------------------------------------------------------------ tasks
    def spawn(self, target, name, parent=None):
        t = Task(len(self.tasks), name, target, parent)
        t.pred = lambda: True
        self.tasks.append(t)
        t.thread = threading.Thread(target=self._task_main, args=(t,), name=f"sim-{name}", daemon=True)
        t.state = RUNNABLE
        t.thread.start()
        return t

    def _task_main(self, t):
        t.go.acquire()  # wait for the first scheduling
        try:
            if t.killed:
                raise SimKilled()
            self._current = t
            t.result = t.target()
            t.exitcode = 0
        except SimKilled:
            t.exitcode = -15
        except SystemExit as e:
            code = e.code
            if code is None:
                code = 0
            elif not isinstance(code, int):
                try:
                    sys.stderr.write(str(code) + "\n")
                except Exception:
                    pass
                code = 1
            t.exitcode = code
        except HarnessError as e:
            self.harness_error = "".join(traceback.format_exception(e))
            t.exitcode = 70
        except BaseException as e:  # what the interpreter / multiprocessing bootstrap does
            t.exitcode = 1
            t.exc_text = "".join(traceback.format_exception(e))
            try:
                if t.tid != 0:
                    sys.stderr.write(f"Process {t.name}:\n")
                sys.stderr.write(t.exc_text)
            except Exception:
                pass
        finally:
            try:
                self._on_exit(t)
            finally:
                t.state = DONE
                self._emit(t, "exit", t.exitcode)
                self._sem.release()

    def _on_exit(self, t):
        # a normally exiting producer flushes its queue feeder; a killed one loses the items
        for q in self.queues.values():
            items = q.pending.pop(t.tid, None)
            if items and not t.killed:
                q.shared.extend(items)
                self.probe("feeder_flush_at_exit", len(items))

    def yield_(self, pred, op, obj=None, size=None):
        """Called from a task thread: park until the scheduler picks this task again."""
        t = self.current_task()
        if t.killed:
            raise SimKilled()  # a killed task never parks again (it is unwinding)
        t.pred = pred
        t.desc = (op, obj)
        self._sem.release()
        t.go.acquire()
        self._current = t
        if t.killed:
            raise SimKilled()
        self._emit(t, op, obj, size)

    # ------------------------------------------------------------------ scheduler
    def _enabled(self):
        en = []
        for t in self.tasks:
            if t.state is RUNNABLE:
                if t.killed:
                    en.append(("task", t.tid))
                else:
                    try:
                        ok = t.pred()
                    except Exception as e:  # pragma: no cover
                        raise HarnessError(f"predicate failed: {e!r}")
                    if ok:
                        en.append(("task", t.tid))
        if self.feeder:
            for qid in sorted(self.queues):
                q = self.queues[qid]
                for tid in sorted(q.pending):
                    if q.pending[tid]:
                        en.append(("feed", qid, tid))
        return en

    def run(self, main_target):
        """Run main_target as task 0 until it ends. Returns outcome string."""
        global _CURRENT
        if _CURRENT is not None:
            raise HarnessError("nested simulation")
        _CURRENT = self
        try:
            main = self.spawn(main_target, "main")
            while True:
                if main.state is DONE:
                    self.outcome = "finished"
                    self.alive_at_main_exit = [t.name for t in self.tasks if t.state is not DONE]
                    break
                en = self._enabled()
                if not en:
                    self.outcome = "deadlock"
                    self.blocked_report = self.describe_blocked()
                    break
                if self.step >= self.step_cap:
                    self.outcome = "no-progress"
                    self.blocked_report = self.describe_blocked()
                    break
                idx = self.chooser.choose(self, en)
                if not (0 <= idx < len(en)):
                    idx = 0
                self.choices.append(idx)
                self.enabled_sizes.append(len(en))
                self.step += 1
                ev = en[idx]
                if ev[0] == "feed":
                    q = self.queues[ev[1]]
                    item = q.pending[ev[2]].pop(0)
                    if not q.pending[ev[2]]:
                        del q.pending[ev[2]]
                    if q.shared and True:
                        self.probe("feeder_delivery_behind_other_producer")
                    q.shared.append(item)
                    self.log.append((self.step, "-", "feed", ev[1], ev[2]))
                else:
                    t = self.tasks[ev[1]]
                    t.steps += 1
                    if self.images is not None:
                        self.images.switch(t.tid)
                    t.go.release()
                    self._sem.acquire()
                if self.harness_error:
                    break
        finally:
            self._reap()
            _CURRENT = None
        if self.harness_error:
            raise HarnessError(self.harness_error)
        return self.outcome

    def _reap(self):
        """Kill whatever is still alive (daemon children at interpreter exit) and let it unwind."""
        self._reaping = True
        for _ in range(3):
            alive = [t for t in self.tasks if t.state is not DONE]
            if not alive:
                break
            for t in alive:
                t.killed = True
                t.go.release()
                if not self._sem.acquire(timeout=20):
                    self.harness_error = (self.harness_error or "") + f"\ntask {t.name} did not unwind"
                    return

    def describe_blocked(self):
        out = []
        for t in self.tasks:
            if t.state is not DONE:
                op, obj = t.desc
                out.append(f"{t.name}: {op}({obj})")
        return out

    # ------------------------------------------------------------------ pipes
    def ch_send(self, ch, payload, op):
        size = len(payload) + 4
        cap = ch.capacity
        if cap is None or size <= cap:
            if cap is not None and ch.used + size > cap:
                self.probe("sender_blocked_on_full_pipe")
            self.yield_(lambda: cap is None or ch.used + size <= cap, op, ch.cid, size)
            ch.msgs.append(payload)
            ch.used += size
            ch.put_seq += 1
        else:
            # larger than the pipe: goes through only while the receiver is draining
            self.probe("message_larger_than_pipe")
            self.yield_(lambda: not ch.msgs, op, ch.cid, size)
            ch.msgs.append(payload)
            ch.used += size
            ch.put_seq += 1
            my = ch.put_seq
            self.yield_(lambda: ch.taken_seq >= my, op + "-drain", ch.cid, size)

    def ch_recv(self, ch, op):
        self.yield_(lambda: bool(ch.msgs), op, ch.cid)
        payload = ch.msgs.pop(0)
        ch.used -= len(payload) + 4
        ch.taken_seq += 1
        return payload


# ---------------------------------------------------------------------- user-facing objects


def _rebuild_conn(cid, readable, writable):
    return SimConnection(current_kernel().channels[cid], readable, writable)


class SimConnection:
    """Stand-in for multiprocessing.connection.Connection over a kernel channel."""

    def __init__(self, channel, readable, writable):
        self._ch = channel
        self.readable = readable
        self.writable = writable
        self.closed = False

    def __reduce__(self):
        return (_rebuild_conn, (self._ch.cid, self.readable, self.writable))

    def __repr__(self):
        return f"<SimConnection ch={self._ch.cid} {'r' if self.readable else ''}{'w' if self.writable else ''}>"

    def send(self, obj):
        if not self.writable:
            raise OSError("connection is read-only")
        # pickling happens in the sender, before anything is written (as in multiprocessing)
        payload = pickle.dumps(obj, protocol=pickle.HIGHEST_PROTOCOL)
        k = current_kernel()
        if obj == -2 and isinstance(obj, int):
            who = k.current_task().name
            k.markers.append((who, self._ch.cid))
            k.probe("error_marker_sent_by_" + ("worker" if who.startswith("worker") else who))
        k.ch_send(self._ch, payload, "send")

    def send_bytes(self, buf, offset=0, size=None):
        if not self.writable:
            raise OSError("connection is read-only")
        m = memoryview(buf)
        if m.itemsize > 1:
            m = m.cast("B")
        data = bytes(m[offset:] if size is None else m[offset : offset + size])
        current_kernel().ch_send(self._ch, data, "send_bytes")

    def recv(self):
        if not self.readable:
            raise OSError("connection is write-only")
        payload = current_kernel().ch_recv(self._ch, "recv")
        return pickle.loads(payload)

    def recv_bytes(self, maxlength=None):
        if not self.readable:
            raise OSError("connection is write-only")
        return current_kernel().ch_recv(self._ch, "recv_bytes")

    def recv_bytes_into(self, buf, offset=0):
        """As multiprocessing.connection.Connection.recv_bytes_into: the complete message is
        read into `buf` at `offset`; BufferTooShort carries the message if it does not fit."""
        if not self.readable:
            raise OSError("connection is write-only")
        import multiprocessing

        payload = current_kernel().ch_recv(self._ch, "recv_bytes")
        with memoryview(buf) as m:
            itemsize = m.itemsize
            bytesize = itemsize * len(m)
            if offset < 0:
                raise ValueError("negative offset")
            elif offset > bytesize:
                raise ValueError("offset too large")
            size = len(payload)
            if bytesize < offset + size:
                raise multiprocessing.BufferTooShort(payload)
            m = m.cast("B") if itemsize != 1 else m
            m[offset : offset + size] = payload
        return size

    def poll(self, timeout=0.0):
        return bool(self._ch.msgs)

    def close(self):
        self.closed = True

    def fileno(self):
        raise OSError("simulated connection has no file descriptor")


def sim_pipe(duplex=False):
    if duplex:
        raise NotImplementedError("duplex pipes are not used by cutadapt")
    ch = current_kernel().new_channel()
    return SimConnection(ch, True, False), SimConnection(ch, False, True)


def sim_wait(object_list, timeout=None):
    k = current_kernel()
    conns = list(object_list)
    for c in conns:
        if not isinstance(c, SimConnection):
            raise HarnessError(f"wait() on unsupported object {c!r}")
    if timeout is not None:
        raise HarnessError("wait() with a timeout is not modelled")
    k.yield_(lambda: any(c._ch.msgs for c in conns), "wait", tuple(c._ch.cid for c in conns))
    ready = [c for c in conns if c._ch.msgs]
    if len(ready) > 1:
        k.probe("wait_returned_several_ready")
    return ready


def _rebuild_queue(qid):
    return SimQueue(current_kernel().queues[qid])


class SimQueue:
    def __init__(self, state=None):
        self._q = state if state is not None else current_kernel().new_queue()

    def __reduce__(self):
        return (_rebuild_queue, (self._q.qid,))

    def put(self, item, block=True, timeout=None):
        k = current_kernel()
        t = k.current_task()
        k.yield_(lambda: True, "put", self._q.qid)
        if k.feeder:
            self._q.pending.setdefault(t.tid, []).append(item)
        else:
            self._q.shared.append(item)

    def get(self, block=True, timeout=None):
        k = current_kernel()
        if not block or timeout is not None:
            raise HarnessError("non-blocking Queue.get is not modelled")
        k.yield_(lambda: bool(self._q.shared), "get", self._q.qid)
        return self._q.shared.pop(0)

    def close(self):
        pass

    def join_thread(self):
        pass

    def cancel_join_thread(self):
        pass


class SimProcess:
    """Stand-in for multiprocessing.Process with spawn semantics (state is pickled)."""

    def __init__(self, group=None, target=None, name=None, args=(), kwargs=None, *, daemon=None):
        self._target = target
        self._args = tuple(args)
        self._kwargs = dict(kwargs or {})
        self._name = name
        self.daemon = bool(daemon)
        self._task = None

    # picklable state: everything except the kernel task
    def __getstate__(self):
        d = self.__dict__.copy()
        d["_task"] = None
        return d

    def __setstate__(self, d):
        self.__dict__.update(d)

    @property
    def name(self):
        return self._name or type(self).__name__

    @name.setter
    def name(self, v):
        self._name = v

    def run(self):
        if self._target:
            self._target(*self._args, **self._kwargs)

    def _sim_name(self):
        cls = type(self).__name__
        if cls == "ReaderProcess":
            return "reader"
        if cls == "WorkerProcess":
            return f"worker{getattr(self, '_id', '')}"
        return cls

    def start(self):
        k = current_kernel()
        parent = k.current_task()
        if self._task is not None:
            raise AssertionError("cannot start a process twice")
        payload = pickle.dumps(self, protocol=pickle.HIGHEST_PROTOCOL)
        k.yield_(lambda: True, "start", self._sim_name())  # (payload size depends on set order, i.e. the hash seed)
        child = pickle.loads(payload)
        name = k.unique_name(self._sim_name())
        task = k.spawn(child.run, name, parent=parent)
        task.daemon = self.daemon
        self._task = task
        parent.children.append(self)
        if k.images is not None:
            k.images.on_start(parent.tid, task.tid)
        if k.start_method == "fork":
            # a forked child inherits the write ends of the pipes to external compressor processes
            for pw in k.open_pipes:
                if not pw.closed:
                    pw.holders.append(task)

    def join(self, timeout=None):
        k = current_kernel()
        if self._task is None:
            raise AssertionError("can only join a started process")
        if timeout is not None:
            raise HarnessError("join() with a timeout is not modelled")
        task = self._task
        k.yield_(lambda: task.state is DONE, "join", task.name)

    def is_alive(self):
        return self._task is not None and self._task.state is not DONE

    def terminate(self):
        k = current_kernel()
        if self._task is None:
            raise AssertionError("process not started")
        task = self._task
        k.yield_(lambda: True, "terminate", task.name)
        if task.state is not DONE:
            task.killed = True

    kill = terminate

    def close(self):
        pass

    @property
    def exitcode(self):
        return None if self._task is None else self._task.exitcode

    @property
    def pid(self):
        return None if self._task is None else 1000 + self._task.tid


def sim_active_children():
    k = current_kernel()
    t = k.current_task()
    return [p for p in t.children if p._task is not None and p._task.state is not DONE]


class SimContext:
    """What multiprocessing.get_context() returns inside the simulation."""

    Process = SimProcess

    @staticmethod
    def Pipe(duplex=True):
        return sim_pipe(duplex)

    @staticmethod
    def Queue(maxsize=0):
        return SimQueue()

    @staticmethod
    def get_start_method(allow_none=False):
        return current_kernel().start_method


class _ConnectionShim:
    wait = staticmethod(sim_wait)
    Connection = SimConnection


class MultiprocessingShim:
    """Bound to the name `multiprocessing` inside cutadapt.runners."""

    connection = _ConnectionShim
    Process = SimProcess
    Queue = SimQueue
    from multiprocessing import AuthenticationError, BufferTooShort, ProcessError, TimeoutError  # noqa: F401
    active_children = staticmethod(sim_active_children)

    @staticmethod
    def get_context(method=None):
        return SimContext

    @staticmethod
    def cpu_count():
        return 4
