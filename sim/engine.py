"""
Engine: seeded case generation, execution contexts with recordable/replayable schedules,
process pool, violation handling (shrink, replay file, fresh-interpreter confirmation),
known-findings matching and evidence files.
"""
import base64
import faulthandler
import hashlib
import json
import os
import random
import subprocess
import sys
import time
import traceback
from concurrent.futures import ProcessPoolExecutor, as_completed
import multiprocessing

from . import gen, harness, policies
from .kernel import HarnessError

VERIF = os.path.dirname(os.path.dirname(os.path.abspath(__file__)))
REPLAYS = os.path.join(VERIF, "replays")
EVIDENCE = os.environ.get("VERIF_EVIDENCE_DIR") or os.path.join(VERIF, "evidence")  # mutant runs must not overwrite evidence
KNOWN = os.path.join(VERIF, "known_findings.json")


def case_rng(seed, prop, index):
    h = hashlib.sha256(f"{seed}/{prop}/{index}".encode()).digest()
    return random.Random(int.from_bytes(h[:8], "big"))


class Discard(Exception):
    """The generated case is outside the property's quantifier (counted, not judged)."""

    def __init__(self, reason):
        super().__init__(reason)
        self.reason = reason


class Ctx:
    """Executes the runs of one case; records every schedule so the case can be replayed."""

    def __init__(self, case, replay=None, keep_log=False):
        self.case = case
        self.replay = replay  # name -> list of choices, or None when generating
        self.sched = {}  # name -> choices actually taken
        self.results = {}
        self.steps = 0
        self.sim_runs = 0
        self.probes = {}
        self.digests = []
        self.keep_log = keep_log
        self.abstract = []

    def run(self, name, argv, files, parallel, knobs=None):
        knobs = knobs or self.case["knobs"]
        if not parallel:
            chooser = policies.ReplayChooser([])
            cap, feeder = 65536, False
        else:
            cap, feeder = knobs["capacity"], knobs["feeder"]
            if self.replay is not None:
                chooser = policies.ReplayChooser(self.replay.get(name, []))
            else:
                r = random.Random(knobs["sched_seed"] ^ (int.from_bytes(hashlib.sha1(name.encode()).digest()[:6], "big")))
                chooser = policies.PolicyChooser(knobs["policy"], r)
        env = {
            "start_method": knobs.get("start_method", "spawn"),
            "tty": knobs.get("tty", False),
            "piped_exts": knobs.get("piped_exts", ()),
            "emfile_at": knobs.get("emfile_at"),
            "relpaths": knobs.get("relpaths", False),
            "enospc": knobs.get("enospc"),
            "short_reads": knobs.get("short_reads"),
            "cpus": knobs.get("cpus"),
        }
        if knobs.get("preexist"):
            # a re-run: the output files are already there, longer than what will be written now
            files = dict(files)
            stale = b"@stale_record_of_an_earlier_run\nACGTACGTAC\n+\nIIIIIIIIII\n" * 40
            for a in argv:
                for tok in ([a] if a.startswith("/simfs/") else [a.split("=", 1)[1]] if ("=/simfs/" in a and a.startswith("--")) else []):
                    if "{" not in tok and tok not in files:
                        files[tok] = stale
        if knobs.get("devfd"):
            trailing = []
            for a in reversed(argv):
                if a in files and gen.is_input_name(a):
                    trailing.append(a)
                else:
                    break
            env["devfd_paths"] = trailing[::-1]
        if argv and argv[-1] == "-":
            # the (single) input file is fed to standard input
            cands = sorted(p for p in files if gen.is_input_name(p))
            if len(cands) != 1:
                raise HarnessError(f"standard input wanted but input files are {cands}")
            env["stdin_path"] = cands[0]
            env["stdin_kind"] = knobs.get("stdin_kind", "file")
        res = harness.run_sim(argv, files, chooser, capacity=cap, feeder=feeder, keep_log=self.keep_log or parallel,
                              env=env)
        if parallel:
            self.probes["env_start_method_" + env["start_method"]] = self.probes.get("env_start_method_" + env["start_method"], 0) + 1
        if env["tty"]:
            self.probes["env_stderr_is_terminal"] = self.probes.get("env_stderr_is_terminal", 0) + 1
        if parallel:
            self.sched[name] = list(res.choices)
            self.digests.append(res.log_digest)
            self.abstract.append(abstract_schedule(res.log))
            for k, v in schedule_probes(res.log).items():
                self.probes[k] = self.probes.get(k, 0) + v
            if not self.keep_log:
                res.log = None
        self.results[name] = res
        self.steps += res.steps
        self.sim_runs += 1
        for k, v in res.probes.items():
            self.probes[k] = self.probes.get(k, 0) + v
        return res


def schedule_probes(log):
    """
    'This rare condition was hit' counters derived from the event log of one multi-core run:
    idle workers, results that had to be parked in the ordered writer, the reader finishing
    before any worker received a chunk, a worker served twice in a row.
    """
    p = {}
    if not log:
        return p
    assign = []  # request pipe per chunk, in chunk order
    worker_in, worker_out = {}, {}
    arrivals = []  # result pipe per received result (first recv_bytes of each result only)
    reader_exit = None
    first_worker_recv_bytes = None
    paired_inputs = 1
    last = None
    for step, task, op, obj, size in log:
        if task == "reader" and op == "send_bytes":
            if last == ("reader", "send_bytes", obj):
                paired_inputs = 2
            else:
                assign.append(obj)
        elif task.startswith("worker"):
            if op == "recv_bytes":
                worker_in[task] = obj
                if first_worker_recv_bytes is None:
                    first_worker_recv_bytes = step
            elif op in ("send", "send_bytes"):
                worker_out[task] = obj
        elif task == "reader" and op == "exit":
            reader_exit = step
        if task == "main" and op == "recv" and obj in worker_out.values():
            pass
        last = (task, op, obj)
    # result arrival order: main's recv of an index on a result pipe precedes its recv_bytes calls
    out_to_worker = {v: k for k, v in worker_out.items()}
    in_of_worker = worker_in
    pending = {w: [i for i, ch in enumerate(assign) if in_of_worker.get(w) == ch] for w in worker_out}
    seen_result = set()
    order = []
    prev = None
    for step, task, op, obj, size in log:
        if task == "main" and op == "recv_bytes" and obj in out_to_worker:
            if prev != ("recv_bytes", obj):
                w = out_to_worker[obj]
                if pending.get(w):
                    order.append(pending[w].pop(0))
        if task == "main":
            prev = (op, obj)
    cur, parked, max_parked = 0, set(), 0
    for idx in order:
        parked.add(idx)
        while cur in parked:
            parked.remove(cur)
            cur += 1
        max_parked = max(max_parked, len(parked))
    n_workers = len({t for _, t, _, _, _ in log if t.startswith("worker")})
    busy = len({w for w, ch in in_of_worker.items()})
    if n_workers > busy:
        p["worker_got_no_chunk"] = n_workers - busy
    if max_parked >= 1:
        p["result_parked_out_of_order"] = 1
    if max_parked >= 2:
        p["two_or_more_results_parked"] = 1
    if max_parked >= 16:
        p["sixteen_or_more_results_parked"] = 1
    # (the reader cannot finish before a worker took a chunk: every chunk and every stop token
    # needs a fresh work request, so that condition of DESIGN §3.7 is unreachable and not probed)
    first_result = next((st for st, t, op, o, _ in log if t == "main" and op == "recv_bytes"), None)
    last_chunk_sent = max((st for st, t, op, o, _ in log if t == "reader" and op == "send_bytes"), default=None)
    if first_result is not None and last_chunk_sent is not None and len(assign) >= 2 and last_chunk_sent < first_result:
        p["reader_sent_every_chunk_before_main_got_a_result"] = 1
    if any(a == b for a, b in zip(assign, assign[1:])):
        p["same_worker_served_twice_in_a_row"] = 1
    if order and order != sorted(order):
        p["results_arrived_out_of_chunk_order"] = 1
    return p


def abstract_schedule(log):
    """
    (chunk -> worker assignment, order in which chunk results reach main, max parked chunks):
    the part of the interleaving the properties can depend on. Derived from the event log:
    a worker's `recv` of an int chunk index is not visible here, so we use message flow:
    reader 'send' events per channel give assignment order; main 'recv' events per channel give
    arrival order.
    """
    assign = []
    arrive = []
    for step, task, op, obj, size in log or ():
        if task == "reader" and op == "send_bytes":
            assign.append(obj)
        elif task == "main" and op == "recv_bytes":
            if not arrive or arrive[-1] != obj:
                arrive.append(obj)
    return (tuple(assign), tuple(arrive))


# --------------------------------------------------------------------------- replay files


def _b64(d):
    return {k: base64.b64encode(v).decode() for k, v in d.items()}


def _unb64(d):
    return {k: base64.b64decode(v) for k, v in d.items()}


def write_replay(prop_id, seed, index, case, sched, violation, tag=""):
    os.makedirs(REPLAYS, exist_ok=True)
    path = os.path.join(REPLAYS, f"{prop_id}-{seed}-{index}-{violation['clause']}{tag}.json")
    doc = {
        "property": prop_id,
        "seed": seed,
        "index": index,
        "clause": violation["clause"],
        "message": violation["msg"],
        "case": case,
        "schedules": sched,
        "input_files_b64": _b64(gen_files(case)),
    }
    with open(path, "w") as f:
        json.dump(doc, f, indent=1, sort_keys=True)
    return path


def gen_files(case):
    from . import faults

    files = gen.materialize(case)
    return faults.apply(case, files)


def load_replay(path):
    with open(path) as f:
        return json.load(f)


# --------------------------------------------------------------------------- known findings


def load_known():
    if not os.path.exists(KNOWN):
        return []
    with open(KNOWN) as f:
        doc = json.load(f)
    return [e for e in doc.get("findings", []) if e.get("status") == "known"]


def match_known(prop_mod, prop_id, case, violation, known):
    for e in known:
        if e["property"] != prop_id or e["clause"] != violation["clause"]:
            continue
        sig = prop_mod.signature(case, violation)
        if all(sig.get(k) == v for k, v in e["signature"].items()):
            return e
    return None


# --------------------------------------------------------------------------- evaluation of one case


def evaluate_index(prop_mod, seed, index, tier):
    """Generate and judge one case. Returns a JSON-able summary dict."""
    rng = case_rng(seed, prop_mod.ID, index)
    t0 = time.time()
    out = {"index": index, "violations": [], "discard": None}
    try:
        if hasattr(prop_mod, "generate_indexed"):
            case = prop_mod.generate_indexed(seed, index, tier, rng)
        else:
            case = prop_mod.generate(rng, tier)
    except Discard as d:
        out["discard"] = "gen:" + d.reason
        return out
    ctx = Ctx(case)
    try:
        viols = prop_mod.evaluate(case, ctx)
    except Discard as d:
        out["discard"] = d.reason
        viols = []
    out["violations"] = viols
    out["steps"] = ctx.steps
    out["sim_runs"] = ctx.sim_runs
    out["probes"] = ctx.probes
    out["digests"] = ctx.digests
    out["abstract"] = [hashlib.sha1(repr(a).encode()).hexdigest()[:16] for a in ctx.abstract]
    out["key"] = prop_mod.nontrivial_key(case, ctx) if out["discard"] is None else None
    out["faults"] = [f["kind"] for f in case.get("faults", [])]
    out["wall"] = time.time() - t0
    if viols:
        out["case"] = case
        out["sched"] = ctx.sched
    if index < 3 or (out["key"] is not None and index % 97 == 0):
        out["sample"] = prop_mod.sample_view(case, ctx)
    return out


def reevaluate(prop_mod, case, sched):
    """Replay: every scheduling decision comes from `sched`."""
    ctx = Ctx(case, replay=sched)
    try:
        viols = prop_mod.evaluate(case, ctx)
    except Discard:
        viols = []
    return viols, ctx


_POOL_PROP = None


def _pool_init(prop_name):
    global _POOL_PROP
    import importlib

    _POOL_PROP = importlib.import_module(f"props.{prop_name}")
    faulthandler.enable()


def _pool_eval(args):
    seed, lo, hi, tier, deadline = args
    outs = []
    for index in range(lo, hi):
        crash = os.environ.get("VERIF_TEST_CRASH_ONCE")  # self-test of the pool-restart path
        if crash and index == 7 and not os.path.exists(crash):
            open(crash, "w").close()
            os.kill(os.getpid(), 11)
        if time.time() > deadline:
            outs.append({"index": index, "skipped": True})
            continue
        faulthandler.dump_traceback_later(600, exit=True)
        try:
            outs.append(evaluate_index(_POOL_PROP, seed, index, tier))
        except HarnessError as e:
            outs.append({"index": index, "harness_error": str(e)})
        except Exception:
            outs.append({"index": index, "harness_error": traceback.format_exc()})
        finally:
            faulthandler.cancel_dump_traceback_later()
    return outs


# --------------------------------------------------------------------------- batch driver


def run_batch(prop_mod, seed, tier, n_cases, budget_s, procs=None, extra_evidence=None):
    """Run n_cases indices; returns (exit_code, evidence dict). Prints VIOLATION lines."""
    t0 = time.time()
    procs = procs or int(os.environ.get("VERIF_PROCS", "0")) or min(16, os.cpu_count() or 1)
    deadline = t0 + budget_s
    chunk = max(1, min(25, n_cases // (procs * 4) or 1))
    jobs = [(seed, lo, min(lo + chunk, n_cases), tier, deadline) for lo in range(0, n_cases, chunk)]
    results = []
    harness_errors = []
    ctxm = multiprocessing.get_context("fork")
    name = prop_mod.__name__.split(".")[-1]
    pending = jobs
    pool_crashes = 0
    for attempt in range(4):
        if not pending:
            break
        failed = []
        with ProcessPoolExecutor(max_workers=procs, mp_context=ctxm, initializer=_pool_init, initargs=(name,)) as ex:
            futs = {ex.submit(_pool_eval, j): j for j in pending}
            for fu in as_completed(futs):
                try:
                    results.extend(fu.result())
                except Exception as e:  # BrokenProcessPool: a worker process died (e.g. SIGSEGV in an extension)
                    failed.append((futs[fu], repr(e)))
        if failed:
            pool_crashes += 1
        # retry what did not complete, in single-case jobs so that one crashing case cannot take others with it
        pending = []
        for (seed_, lo, hi, tier_, dl), err in failed:
            if attempt == 3:
                harness_errors.append(f"pool failure for cases {lo}..{hi - 1} after 4 attempts: {err}")
            else:
                pending.extend((seed_, i, i + 1, tier_, dl) for i in range(lo, hi))
    results.sort(key=lambda r: r["index"])
    for r in results:
        if r.get("harness_error"):
            harness_errors.append(f"case {r['index']}: {r['harness_error']}")
    judged = [r for r in results if not r.get("skipped") and not r.get("harness_error")]
    skipped = sum(1 for r in results if r.get("skipped"))

    known = load_known()
    known_hits = {}
    new_violations = []
    for r in judged:
        for v in r["violations"]:
            e = match_known(prop_mod, prop_mod.ID, r["case"], v, known)
            if e is not None:
                known_hits.setdefault(e["id"], [e, 0])[1] += 1
            else:
                new_violations.append((r, v))

    exit_code = 0
    reported = []
    if new_violations:
        # report the first few distinct clauses; shrink each
        seen_clauses = set()
        for r, v in new_violations:
            if v["clause"] in seen_clauses:
                continue
            seen_clauses.add(v["clause"])
            if len(seen_clauses) > 3:
                break
            path, status = handle_violation(prop_mod, seed, r, v, known)
            reported.append({"clause": v["clause"], "msg": v["msg"], "replay": path, "status": status, "index": r["index"]})
            if status == "confirmed":
                print(f"VIOLATION property={prop_mod.ID} replay={path}", flush=True)
                print(f"  clause={v['clause']} {v['msg'][:300]}", flush=True)
                exit_code = 1
            elif status == "known-after-shrink":
                pass
            else:
                harness_errors.append(f"violation in case {r['index']} ({v['clause']}: {v['msg'][:200]}) did not replay: {status}")
    for fid, (e, n) in sorted(known_hits.items()):
        print(f"KNOWN-FINDING: property={prop_mod.ID} {e['what']} [{fid}; seen in {n} cases]", flush=True)

    extra_evidence = dict(extra_evidence or {})
    extra_evidence["worker_pool_restarts_after_process_death"] = pool_crashes
    ev = build_evidence(prop_mod, seed, tier, judged, skipped, harness_errors, known_hits, reported, time.time() - t0, procs, extra_evidence)
    os.makedirs(EVIDENCE, exist_ok=True)
    with open(os.path.join(EVIDENCE, f"{prop_mod.ID}.json"), "w") as f:
        json.dump(ev, f, indent=1, sort_keys=True)
    if harness_errors:
        for h in harness_errors[:5]:
            print("HARNESS-ERROR:", h[:2000], file=sys.stderr, flush=True)
        if exit_code == 0:
            exit_code = 2
    return exit_code, ev


def build_evidence(prop_mod, seed, tier, judged, skipped, harness_errors, known_hits, reported, wall, procs, extra):
    discards = {}
    keys = set()
    digests = set()
    abstract = set()
    probes = {}
    faults = {}
    steps = sim_runs = 0
    samples = []
    n_viol = 0
    for r in judged:
        if r["discard"]:
            discards[r["discard"]] = discards.get(r["discard"], 0) + 1
            continue
        if isinstance(r.get("key"), dict) and "multi" in r["key"]:
            for k in r["key"]["multi"]:
                keys.add(json.dumps(k, sort_keys=True))
        elif r.get("key") is not None:
            keys.add(json.dumps(r["key"], sort_keys=True))
        digests.update(r.get("digests", ()))
        abstract.update(r.get("abstract", ()))
        for k, v in r.get("probes", {}).items():
            probes[k] = probes.get(k, 0) + v
        for k in r.get("faults", ()):
            faults[k] = faults.get(k, 0) + 1
        steps += r.get("steps", 0)
        sim_runs += r.get("sim_runs", 0)
        if r.get("sample") is not None and len(samples) < 6:
            samples.append(r["sample"])
        n_viol += len(r["violations"])
    evaluated = sum(1 for r in judged if not r["discard"])
    if probes.get("env_emfile"):
        faults["emfile_on_open (environment)"] = probes["env_emfile"]
    if probes.get("env_short_reads"):
        faults["short_reads_from_a_pipe (environment)"] = probes["env_short_reads"]
    if probes.get("env_enospc"):
        faults["disk_full_behind_an_output_file (environment)"] = probes["env_enospc"]
    if probes.get("env_devfd_missing_in_spawned_child"):
        faults["dev_fd_input_absent_in_spawned_child (environment)"] = probes["env_devfd_missing_in_spawned_child"]
    if probes.get("compressor_pipe_inherited_at_close"):
        faults["close_waits_for_forked_holders_of_compressor_pipe (environment)"] = probes["compressor_pipe_inherited_at_close"]
    cov = {
        "evaluations": evaluated,
        "distinct_nontrivial": len(keys),
        "rule": prop_mod.RULE,
        "samples": samples or [{"note": "no case sampled"}],
        "simulated_runs": sim_runs,
        "simulated_runs_per_hour": int(sim_runs / wall * 3600) if wall > 0 else 0,
        "cases_per_hour": int(evaluated / wall * 3600) if wall > 0 else 0,
        "scheduler_steps_total": steps,
        "simulated_time_note": "cutadapt has no timers; simulated time is the scheduler step count",
        "distinct_schedule_digests": len(digests),
        "distinct_abstract_schedules": len(abstract),
        "probes": dict(sorted(probes.items())),
        "fault_kinds_fired": dict(sorted(faults.items())),
        "discards_by_reason": dict(sorted(discards.items())),
        "cases_skipped_for_wall_budget": skipped,
        "worker_processes": procs,
        "known_findings_seen": {k: v[1] for k, v in known_hits.items()},
        "reported": reported,
        "harness_errors": harness_errors[:5],
        "real_components": REAL_COMPONENTS,
        "stub_components": STUB_COMPONENTS,
    }
    if extra:
        cov.update(extra)
    return {
        "property_id": prop_mod.ID,
        "tier": tier,
        "seed": seed,
        "level": prop_mod.LEVEL,
        "coverage": cov,
        "assumptions": prop_mod.ASSUMPTIONS,
        "wall_s": round(wall, 2),
        "violations": sum(1 for r in reported if r["status"] == "confirmed"),
    }


REAL_COMPONENTS = [
    "cutadapt.cli.main and everything it calls (argument parsing, pipeline construction, ReaderProcess.run, "
    "WorkerProcess.run, ParallelPipelineRunner, SerialPipelineRunner, OrderedChunkWriter, OutputFiles/proxy writers, "
    "modifiers, steps, predicates, statistics, reports)",
    "the four Cython extensions, rebuilt from /repo's working tree",
    "dnaio (chunking, parsers, writers)",
    "xopen format detection and in-process codecs (isal/zlib, bz2, lzma, zstd)",
    "pickle for every message and for process state",
]
STUB_COMPONENTS = [
    "OS processes -> parked threads with pickled state and a per-process image of interpreter-global state "
    "(module globals, class attributes, function defaults of cutadapt), swapped at every context switch; "
    "start method fork or spawn per case",
    "pipes, need-work queue (with feeder stage), connection.wait, active_children, terminate, join -> kernel objects",
    "file system -> a private tmpfs directory per simulator process below the xopen seam; one open() per case may fail with EMFILE; "
    "resource limits -> a fake",
    "sys.stdout/stderr -> per-run buffers; stderr is a terminal in some cases (Progress instead of DummyProgress); "
    "sys.stdin -> a real descriptor (/dev/null, file, or pre-filled pipe), one object per simulated process; inputs may be "
    "pre-filled /dev/fd/N pipes; the working directory may be the data directory; outputs may pre-exist; one output may sit "
    "on a full disk (ENOSPC at flush/close)",
    "xopen compression threads / external pigz, xz, zstd -> in-process codec; the pipe to the external process "
    "(close waits until forked children that inherited it have exited) is modelled",
    "wall clock -> logical counter",
]


# --------------------------------------------------------------------------- violation handling


def handle_violation(prop_mod, seed, r, v, known):
    from . import shrink

    case, sched = r["case"], r["sched"]
    # 1. same-process replay from the recorded schedule
    viols, ctx = reevaluate(prop_mod, case, sched)
    if not any(x["clause"] == v["clause"] for x in viols):
        return None, "not reproducible from its recorded schedule (same process)"
    # 2. minimise
    try:
        case2, sched2, v2 = shrink.minimise(prop_mod, case, sched, v["clause"], budget_s=float(os.environ.get("VERIF_SHRINK_S", "60")))
    except Exception:
        case2, sched2, v2 = case, sched, v
    e = match_known(prop_mod, prop_mod.ID, case2, v2, known)
    if e is not None:
        print(f"KNOWN-FINDING: property={prop_mod.ID} {e['what']} [{e['id']}; minimised form of case {r['index']}]", flush=True)
        return None, "known-after-shrink"
    path = write_replay(prop_mod.ID, seed, r["index"], case2, sched2, v2)
    # 3. confirm in a fresh interpreter
    p = subprocess.run(
        [sys.executable, os.path.join(VERIF, "check.py"), prop_mod.ID, "--replay", path, "--quiet"],
        stdout=subprocess.PIPE, stderr=subprocess.STDOUT, text=True, timeout=600,
        env={**os.environ, "PYTHONHASHSEED": "0"},
    )
    if p.returncode == 1 and f"clause={v2['clause']}" in p.stdout:
        return path, "confirmed"
    return path, f"fresh-interpreter replay gave exit {p.returncode}: {p.stdout[-500:]}"


def replay_file(prop_mod, path, quiet=False):
    doc = load_replay(path)
    case = doc["case"]
    files = gen_files(case)
    want = _unb64(doc.get("input_files_b64", {}))
    if want and want != files:
        print("HARNESS-ERROR: replay file's input bytes differ from the regenerated ones", file=sys.stderr)
        return 2
    viols, ctx = reevaluate(prop_mod, case, doc["schedules"])
    hit = [x for x in viols if x["clause"] == doc["clause"]]
    if hit:
        print(f"VIOLATION property={prop_mod.ID} replay={path}")
        print(f"  clause={hit[0]['clause']} {hit[0]['msg'][:1000]}")
        if not quiet:
            print(json.dumps(prop_mod.sample_view(case, ctx), indent=1)[:4000])
        return 1
    print(f"replay of {path}: property held (clause {doc['clause']} did not fail); other clauses failing: {[x['clause'] for x in viols]}")
    return 0
