"""
Delta-debugging minimiser for failing cases: records, option groups, knobs, fault position,
then the schedule. A candidate is kept only if the *same clause* of the same property fails.
"""
import copy
import time

from . import engine


def _fails(prop_mod, case, clause, replay=None):
    ctx = engine.Ctx(case, replay=replay)
    try:
        viols = prop_mod.evaluate(case, ctx)
    except engine.Discard:
        return None
    except Exception:
        return None
    for v in viols:
        if v["clause"] == clause:
            return v, ctx.sched
    return None


def minimise(prop_mod, case, sched, clause, budget_s=60.0):
    t_end = time.time() + budget_s
    case = copy.deepcopy(case)
    got = _fails(prop_mod, case, clause)
    if got is None:
        # only fails under the recorded schedule: keep case, shrink schedule only
        got = _fails(prop_mod, case, clause, replay=sched)
        if got is None:
            raise RuntimeError("not reproducible")
        v, sched = got
        return case, _shrink_schedule(prop_mod, case, sched, clause, t_end), v
    best_v, best_sched = got

    def attempt(cand):
        nonlocal case, best_v, best_sched
        if time.time() > t_end:
            return False
        g = _fails(prop_mod, cand, clause)
        if g is not None:
            case = cand
            best_v, best_sched = g
            return True
        return False

    changed = True
    while changed and time.time() < t_end:
        changed = False
        # records: remove blocks, halving
        n = len(case["records"])
        block = max(1, n // 2)
        while block >= 1 and time.time() < t_end:
            i = 0
            while i < len(case["records"]) and time.time() < t_end:
                cand = copy.deepcopy(case)
                del cand["records"][i : i + block]
                if not attempt(cand):
                    i += block
                else:
                    changed = True
            block //= 2
        # option groups
        for key in ("opts", "outs"):
            i = 0
            while i < len(case[key]) and time.time() < t_end:
                if case[key][i] == ["--interleaved"] and case["input"]["layout"] == "interleaved":
                    i += 1  # the option belongs to the input layout: without it the case means something else
                    continue
                cand = copy.deepcopy(case)
                del cand[key][i]
                if attempt(cand):
                    changed = True
                else:
                    i += 1
        # knobs
        k = case["knobs"]
        for name, val in (("workers", 2), ("capacity", None), ("feeder", False), ("policy", {"kind": "lowest"}),
                          ("start_method", "spawn"), ("tty", False), ("piped_exts", []), ("emfile_at", None), ("relpaths", False), ("preexist", False), ("enospc", None), ("short_reads", None)):
            if k.get(name) != val:
                cand = copy.deepcopy(case)
                cand["knobs"][name] = val
                if attempt(cand):
                    changed = True
        if case["knobs"]["buffer_size"] < 1_000_000:
            cand = copy.deepcopy(case)
            cand["knobs"]["buffer_size"] = 1_000_000  # one chunk
            if attempt(cand):
                changed = True
        # shorten sequences of remaining records
        if len(case["records"]) <= 6:
            for ri in range(len(case["records"])):
                for si, qi in ((3, 4), (5, 6)):
                    s = case["records"][ri][si]
                    if not s or time.time() > t_end:
                        continue
                    for cut in (len(s) // 2, 1):
                        if cut <= 0 or cut >= len(s):
                            continue
                        for front in (False, True):
                            cand = copy.deepcopy(case)
                            r = cand["records"][ri]
                            r[si] = r[si][cut:] if front else r[si][: len(s) - cut]
                            if r[qi] is not None:
                                r[qi] = r[qi][cut:] if front else r[qi][: len(s) - cut]
                            if attempt(cand):
                                changed = True
                                s = case["records"][ri][si]
                                break
        # faults: drop one of several
        if len(case.get("faults") or []) > 1:
            for i in range(len(case["faults"])):
                cand = copy.deepcopy(case)
                del cand["faults"][i]
                if attempt(cand):
                    changed = True
                    break
    sched = _shrink_schedule(prop_mod, case, best_sched, clause, t_end)
    return case, sched, best_v


def _shrink_schedule(prop_mod, case, sched, clause, t_end):
    """Replace ever longer suffixes by lowest-id-first, then remove single deviations."""
    sched = {k: list(v) for k, v in sched.items()}
    for name in sorted(sched):
        ch = sched[name]
        # binary search the shortest prefix that still fails (suffix = all zeros)
        lo, hi = 0, len(ch)
        while lo < hi and time.time() < t_end:
            mid = (lo + hi) // 2
            trial = dict(sched)
            trial[name] = ch[:mid]
            if _fails(prop_mod, case, clause, replay=trial) is not None:
                hi = mid
            else:
                lo = mid + 1
        ch = ch[:hi]
        sched[name] = ch
        # zero individual non-zero choices, last first
        tries = 0
        for i in range(len(ch) - 1, -1, -1):
            if time.time() > t_end or tries > 200:
                break
            if ch[i] != 0:
                tries += 1
                trial = dict(sched)
                c2 = list(ch)
                c2[i] = 0
                trial[name] = c2
                if _fails(prop_mod, case, clause, replay=trial) is not None:
                    ch = c2
                    sched[name] = ch
        while ch and ch[-1] == 0:
            ch.pop()
    return sched
