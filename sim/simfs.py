"""
The file system of a simulated run.

Every run gets an empty private directory on tmpfs (one per simulator OS process, constant
path length) into which the -- possibly faulted -- input bytes are written; paths of the form
/simfs/<name> in a case are mapped to it. cutadapt and everything below it (xopen's detection by
extension and magic bytes, the in-process codecs, dnaio, and any direct use of open()/os.path)
therefore see real files. The only seam left is the name `xopen` inside cutadapt.files, which
forces threads=0 (no compressor threads / external programs) and redirects '-' for writing to
the captured standard output.

(An earlier version kept files in memory below xopen only; a seeded change that looked at the
input with os.path.getsize()/open() directly was invisible to it.)
"""
import atexit
import io
import os
import shutil
import tempfile

import xopen as _xopen_mod

PREFIX = "/simfs/"

_ROOT = None
_STDOUT_BUF = None


def _parent():
    for d in ("/dev/shm", tempfile.gettempdir()):
        if os.path.isdir(d) and os.access(d, os.W_OK):
            return d
    return tempfile.gettempdir()


def _remove_stale():
    parent = _parent()
    try:
        names = os.listdir(parent)
    except OSError:
        return
    for name in names:
        if not name.startswith("cutadapt-verif-fs-"):
            continue
        try:
            pid = int(name.split("-")[3])
            os.kill(pid, 0)
        except ProcessLookupError:
            shutil.rmtree(os.path.join(parent, name), ignore_errors=True)
        except (IndexError, ValueError, PermissionError):
            pass


def root():
    """The directory standing for /simfs in this OS process (created on first use)."""
    global _ROOT
    pid = os.getpid()
    if _ROOT is None or _ROOT[0] != pid:
        _remove_stale()
        path = os.path.join(_parent(), f"cutadapt-verif-fs-{pid:08d}")
        shutil.rmtree(path, ignore_errors=True)
        os.makedirs(path)
        _ROOT = (pid, path)
        atexit.register(cleanup)
    return _ROOT[1]


def cleanup():
    global _ROOT
    if _ROOT is not None and _ROOT[0] == os.getpid():
        shutil.rmtree(_ROOT[1], ignore_errors=True)
        _ROOT = None


def to_real(s):
    return s.replace(PREFIX, root() + "/") if isinstance(s, str) else s


def to_sim(s):
    return s.replace(root() + "/", PREFIX)


def populate(files):
    """Empty the directory and write the input files of a run."""
    r = root()
    for name in os.listdir(r):
        p = os.path.join(r, name)
        if os.path.isdir(p):
            shutil.rmtree(p, ignore_errors=True)
        else:
            os.unlink(p)
    for p, data in files.items():
        with open(to_real(p), "wb") as f:
            f.write(data)


def snapshot():
    """{'/simfs/<name>': bytes} of everything in the directory."""
    r = root()
    out = {}
    for dirpath, _, names in os.walk(r):
        for name in names:
            full = os.path.join(dirpath, name)
            try:
                with open(full, "rb") as f:
                    data = f.read()
                if name.endswith(".json"):
                    # the JSON report quotes its command line and input paths
                    data = data.replace(r.encode() + b"/", PREFIX.encode())
                out[PREFIX + os.path.relpath(full, r)] = data
            except OSError:
                pass
    return out


class StdoutBinaryProxy(io.BufferedIOBase):
    """What xopen('-', 'wb') gives: an unnamed binary stream onto stdout that may be closed."""

    def __init__(self, buf):
        super().__init__()
        self._b = buf
        self.name = 1  # like open(1, 'wb', closefd=False): an int, not a path

    def writable(self):
        return True

    def write(self, b):
        if self.closed:
            raise ValueError("write to closed file")
        return self._b.write(b)


# Environment of the current run (set by harness.run_sim): which compressed formats are written
# through an external program, and the open() call that fails with EMFILE
ENV = {"piped_exts": (), "emfile_at": None, "enospc": None, "emfile_pending": None, "short_reads": None}
RESOURCE = None  # the fake `resource` module of cutadapt.files (set by harness.install)
_WOPENS = [0]
_OPENS = [0]
FIRED = {}


def begin_run(env):
    ENV["piped_exts"] = tuple(env.get("piped_exts") or ())
    ENV["emfile_at"] = env.get("emfile_at")
    ENV["enospc"] = env.get("enospc")
    ENV["emfile_pending"] = None
    ENV["short_reads"] = env.get("short_reads")
    _OPENS[0] = 0
    _WOPENS[0] = 0
    FIRED.clear()


class PipedWriter(io.BufferedIOBase):
    """
    A compressed output file written through an external compressor process (what xopen does
    with threads > 0 for .xz/.zst, and for .gz/.bz2 when only pigz/pbzip2 can do it): the
    process ends, and the file is complete, when *every* copy of the write end of its stdin
    pipe is closed - including the copies that forked children inherited. close() therefore
    waits, like PipedCompressionProgram.close() does in process.wait().
    The compressor itself is a stub: the in-process codec of the same format.
    """

    def __init__(self, f, path, kernel):
        super().__init__()
        self._f = f
        self._path = path
        self._k = kernel
        self.holders = []  # kernel tasks that inherited the pipe
        self.name = getattr(f, "name", path)

    def writable(self):
        return True

    def write(self, b):
        if self.closed:
            raise ValueError("write to closed file")
        return self._f.write(b)

    def flush(self):
        if not self.closed:
            self._f.flush()

    def close(self):
        if self.closed:
            return
        super().close()
        from . import kernel as K

        k = self._k
        live = [t for t in self.holders if t.state is not K.DONE]
        if live and K._CURRENT is k and not getattr(k, "_reaping", False):
            try:
                cur = k.current_task()
            except K.HarnessError:
                cur = None
            if cur is not None:
                k.probe("compressor_pipe_inherited_at_close")
                k.yield_(lambda: all(t.state is K.DONE for t in self.holders), "wait-compressor", to_sim(self._path))
        self._f.close()


class ShortReader(io.BufferedIOBase):
    """
    Input that arrives through a pipe from a producer that is slower than cutadapt: a read
    returns what is there - at most `k` bytes - not what was asked for. (The data are all in
    the pipe already, so the amounts are the simulator's choice and repeatable.)
    """

    def __init__(self, f, k):
        super().__init__()
        self._f = f
        self._k = max(64, int(k))  # (dnaio asserts that its first read of 4 bytes is complete)
        self.name = getattr(f, "name", None)

    def readable(self):
        return True

    def seekable(self):
        return False

    def readinto(self, b):
        view = memoryview(b)
        return self._f.readinto(view[: min(len(view), self._k)]) or 0

    def read(self, size=-1):
        if size is None or size < 0:
            return self._f.read()
        return self._f.read(min(size, self._k))

    def read1(self, size=-1):
        return self.read(self._k if size is None or size < 0 else size)

    def readline(self, size=-1):
        return self._f.readline(size)

    def peek(self, n=0):
        return self._f.peek(n)

    def close(self):
        if not self.closed:
            try:
                self._f.close()
            finally:
                super().close()


class FullDiskWriter(io.BufferedIOBase):
    """
    An output file on a file system that runs full: the first `quota` bytes written to it arrive,
    the rest is lost, and - as with a buffered writer or NFS - the program only learns about it
    when it flushes or closes the file (OSError ENOSPC).
    """

    def __init__(self, f, quota):
        super().__init__()
        self._f = f
        self._left = quota
        self.lost = False
        self.name = getattr(f, "name", None)

    def writable(self):
        return True

    def write(self, b):
        if self.closed:
            raise ValueError("write to closed file")
        n = len(b)
        if n <= self._left:
            self._f.write(b)
            self._left -= n
        else:
            if self._left:
                self._f.write(bytes(b[: self._left]))
                self._left = 0
            if not self.lost:
                FIRED["enospc"] = FIRED.get("enospc", 0) + 1
            self.lost = True
        return n

    def _fail(self):
        import errno

        raise OSError(errno.ENOSPC, "No space left on device")

    def flush(self):
        if not self.closed:
            self._f.flush()
            if self.lost:
                self._fail()

    def close(self):
        if self.closed:
            return
        try:
            self._f.close()
        finally:
            self._closed_flag = True
        lost, self.lost = self.lost, False
        if lost:
            self._fail()

    @property
    def closed(self):
        return getattr(self, "_closed_flag", False)


def sim_xopen(filename, mode="r", compresslevel=None, threads=None, **kwargs):
    """Replacement for the name `xopen` inside cutadapt.files."""
    import errno

    if ENV.get("emfile_pending") is not None:
        # the process sits at its descriptor limit: opening works again once the limit has been raised
        if RESOURCE is not None and RESOURCE.raised == ENV["emfile_pending"]:
            FIRED["emfile_again_limit_not_raised"] = FIRED.get("emfile_again_limit_not_raised", 0) + 1
            raise OSError(errno.EMFILE, "Too many open files", filename if isinstance(filename, str) else None)
        ENV["emfile_pending"] = None
        retry = True  # (the limit has just been raised: this open succeeds)
    else:
        retry = False
    _OPENS[0] += 0 if retry else 1
    at = ENV["emfile_at"]
    if not retry and at is not None and _OPENS[0] in (at if isinstance(at, (list, tuple)) else (at,)):
        FIRED["emfile"] = FIRED.get("emfile", 0) + 1
        ENV["emfile_pending"] = RESOURCE.raised if RESOURCE is not None else None
        raise OSError(errno.EMFILE, "Too many open files", filename if isinstance(filename, str) else None)
    if filename == "-":
        if "r" in mode:
            # what xopen does: a binary stream on sys.stdin's descriptor, compression detected by content
            f = _xopen_mod.xopen("-", mode, threads=0, **kwargs)
            if ENV["short_reads"] and mode == "rb":
                FIRED["short_reads"] = FIRED.get("short_reads", 0) + 1
                return ShortReader(f, ENV["short_reads"])
            return f
        proxy = StdoutBinaryProxy(_STDOUT_BUF)
        return io.TextIOWrapper(proxy, encoding="utf-8") if ("t" in mode or mode == "w") else proxy
    if isinstance(filename, str) and filename.startswith("/dev/fd/"):
        from . import kernel as K

        k = K._CURRENT
        if k is not None and k.start_method != "fork" and getattr(k, "_current", None) is not None and k._current.tid != 0:
            # a spawned child (close_fds=True) does not inherit the descriptors behind /dev/fd/N
            import errno

            FIRED["devfd_missing_in_spawned_child"] = FIRED.get("devfd_missing_in_spawned_child", 0) + 1
            raise FileNotFoundError(errno.ENOENT, "No such file or directory", filename)
    f = _xopen_mod.xopen(filename, mode, compresslevel=compresslevel, threads=0, **kwargs)
    if mode == "rb" and ENV["short_reads"] and isinstance(filename, str) and filename.startswith("/dev/fd/"):
        FIRED["short_reads"] = FIRED.get("short_reads", 0) + 1
        return ShortReader(f, ENV["short_reads"])
    if mode == "wb" and ENV["enospc"] and isinstance(filename, str):
        _WOPENS[0] += 1
        if _WOPENS[0] == ENV["enospc"]["nth"]:
            return FullDiskWriter(f, ENV["enospc"]["quota"])
    if mode == "wb" and threads != 0 and isinstance(filename, str) and filename.endswith(ENV["piped_exts"] or ("\0",)):
        from . import kernel as K

        k = K._CURRENT
        if k is not None:
            pw = PipedWriter(f, filename, k)
            k.open_pipes.append(pw)
            FIRED["piped_open"] = FIRED.get("piped_open", 0) + 1
            return pw
    return f


class CapturedStdoutBuffer(io.BytesIO):
    """sys.stdout.buffer of a simulated run; survives close() so content stays readable."""

    name = "<stdout>"

    def close(self):
        pass
