"""
In-memory file system below xopen.

sim_xopen() hands a *named* in-memory binary file object to the real xopen.xopen with
threads=0, so that xopen's format detection (by extension and by magic bytes), the real
in-process codecs (isal/zlib, bz2, lzma, zstd) and dnaio's name-based FASTA/FASTQ decision all
run unmodified.  Every write reaches the SimFS entry immediately.
"""
import io

import xopen as _xopen_mod

PREFIX = "/simfs/"

_FS = None  # SimFS of the run in progress


class SimFS:
    def __init__(self, files=None):
        self.files = {}  # path -> bytearray
        self.events = []  # (op, path)
        self.open_writers = {}
        for p, data in (files or {}).items():
            self.files[p] = bytearray(data)

    def snapshot(self):
        return {p: bytes(b) for p, b in self.files.items()}


def set_fs(fs):
    global _FS
    _FS = fs


def get_fs():
    return _FS


class SimRawRead(io.RawIOBase):
    """The raw layer of open(path, 'rb'): wrapped in io.BufferedReader like a real file."""

    def __init__(self, path, data):
        super().__init__()
        self.name = path
        self.mode = "rb"
        self._data = data
        self._pos = 0

    def readable(self):
        return True

    def seekable(self):
        return True

    def readinto(self, b):
        m = memoryview(b).cast("B")
        n = min(len(m), len(self._data) - self._pos)
        if n <= 0:
            return 0
        m[:n] = self._data[self._pos : self._pos + n]
        self._pos += n
        return n

    def seek(self, offset, whence=0):
        if whence == 0:
            self._pos = offset
        elif whence == 1:
            self._pos += offset
        else:
            self._pos = len(self._data) + offset
        self._pos = max(0, self._pos)
        return self._pos

    def tell(self):
        return self._pos

    def fileno(self):
        raise io.UnsupportedOperation("fileno")


class SimRawWrite(io.RawIOBase):
    """The raw layer of open(path, 'wb'): wrapped in io.BufferedWriter like a real file, so
    data reaches SimFS when the buffer is flushed or the file is closed (or collected)."""

    def __init__(self, fs, path, append=False):
        super().__init__()
        self.name = path
        self.mode = "ab" if append else "wb"
        if not append or path not in fs.files:
            fs.files[path] = bytearray()
        self._buf = fs.files[path]
        self._fs = fs
        fs.events.append(("create", path))

    def writable(self):
        return True

    def seekable(self):
        return False

    def write(self, b):
        if self.closed:
            raise ValueError("write to closed file")
        m = memoryview(b).cast("B")
        self._buf += m
        return len(m)

    def tell(self):
        return len(self._buf)

    def fileno(self):
        raise io.UnsupportedOperation("fileno")

    def close(self):
        if not self.closed:
            self._fs.events.append(("close", self.name))
        super().close()


def _sim_raw_open(path, mode):
    fs = _FS
    if fs is None:
        raise RuntimeError("no SimFS active")
    if "r" in mode:
        if path not in fs.files:
            raise FileNotFoundError(2, "No such file or directory", path)
        fs.events.append(("open", path))
        return io.BufferedReader(SimRawRead(path, bytes(fs.files[path])))
    return io.BufferedWriter(SimRawWrite(fs, path, append="a" in mode))


def sim_xopen(filename, mode="r", compresslevel=None, threads=None, **kwargs):
    """Replacement for the name `xopen` inside cutadapt.files."""
    if isinstance(filename, str) and filename != "-":
        if not filename.startswith(PREFIX):
            raise FileNotFoundError(2, "path outside the simulated file system", filename)
        binmode = mode[0] + "b"
        fileobj = _sim_raw_open(filename, binmode)
        return _xopen_mod.xopen(fileobj, mode, compresslevel=compresslevel, threads=0, **kwargs)
    if filename == "-":
        if "r" in mode:
            raise io.UnsupportedOperation("reading standard input is not modelled")
        proxy = StdoutBinaryProxy(_STDOUT_BUF)
        return io.TextIOWrapper(proxy, encoding="utf-8") if "t" in mode or mode == "w" else proxy
    return _xopen_mod.xopen(filename, mode, compresslevel=compresslevel, threads=0, **kwargs)


def sim_open(path, mode="r", *args, **kwargs):
    """Replacement for builtin open inside cutadapt.cli (used for --json)."""
    if isinstance(path, str) and path.startswith(PREFIX):
        raw = _sim_raw_open(path, mode.replace("t", "") + "b" if "b" not in mode else mode)
        if "b" in mode:
            return raw
        return io.TextIOWrapper(raw, encoding="utf-8")
    raise FileNotFoundError(2, "path outside the simulated file system", path)


class StdoutBinaryProxy(io.BufferedIOBase):
    """What xopen('-', 'wb') gives: an unnamed binary stream onto stdout that may be closed."""

    def __init__(self, buf):
        super().__init__()
        self._b = buf
        self.name = 1  # like open(1, 'wb', closefd=False): an int, not a path

    def writable(self):
        return True

    def write(self, b):
        if self.closed:
            raise ValueError("write to closed file")
        return self._b.write(b)


_STDOUT_BUF = None


class CapturedStdoutBuffer(io.BytesIO):
    """sys.stdout.buffer of a simulated run; survives close() so content stays readable."""

    name = "<stdout>"

    def close(self):
        pass
