"""
Workload generator: records, input layout/containers, command lines (option grammar of
DESIGN §4) and run knobs.  Everything is drawn from the single random.Random of the case.

A case is a plain JSON-able dict so that it can be written to a replay file and shrunk.
"""
import re

from . import fmt

SIMFS = "/simfs/"
BASES = "ACGT"
QUAL_FULL = "".join(chr(c) for c in range(33, 127))
ID_RE = re.compile(r"rd\d{5,}")  # (six digits from 100000 reads on)


def rand_seq(rng, n, alphabet=BASES):
    return "".join(rng.choices(alphabet, k=n)) if n > 0 else ""


def mutate(rng, s, k):
    """Introduce up to k substitutions/indels."""
    s = list(s)
    for _ in range(k):
        if not s:
            break
        p = rng.randrange(len(s))
        r = rng.random()
        if r < 0.6:
            s[p] = rng.choice(BASES)
        elif r < 0.8:
            del s[p]
        else:
            s.insert(p, rng.choice(BASES))
    return "".join(s)


# ----------------------------------------------------------------------------- adapters


def gen_adapter_seq(rng, lo=5, hi=16, wild=0.15):
    n = rng.randint(lo, hi)
    s = rand_seq(rng, n)
    if rng.random() < wild:
        s = list(s)
        for _ in range(rng.randint(1, 2)):
            s[rng.randrange(n)] = rng.choice("NNRYWI")  # I (inosine) is documented as another spelling of N
        s = "".join(s)
        if set(s) <= set("N"):
            s = "A" + s[1:]
    return s


def _rate_edges():
    """(error-rate string, adapter length) pairs whose product, as computed in floating point,
    lies within rounding noise of an integer without being one: int(rate * L) then differs from
    the 'obvious' value (49 * (1/49) is 0.9999999999999999)."""
    out = []
    for L in range(12, 111):
        for k in range(1, 71):
            rs = f"{k / 100:g}"
            p = float(rs) * L
            if p != round(p) and abs(p - round(p)) < 1e-9:
                out.append((rs, L))
        for n in range(1, 11):
            p = (n / L) * L  # -e N (N >= 1) means N errors: cutadapt uses the rate N / L
            if p != round(p) and abs(p - round(p)) < 1e-9:
                out.append((str(n), L))
    return out


RATE_EDGES = _rate_edges()


def gen_adapter(rng, end, name=None, allow_linked=True, allow_params=True, simple=False):
    """
    end: 'a' | 'g' | 'b' (lower case = R1 flag letter; caller upper-cases for R2).
    Returns dict(flag, spec, name, kind, seqs) where seqs are the component sequences
    with their placement, used for planting.
    """
    kind = None
    seqs = []
    if allow_linked and end in "ag" and rng.random() < 0.15:
        s1 = gen_adapter_seq(rng, 5, 10, wild=0.0)
        s2 = gen_adapter_seq(rng, 5, 12, wild=0.0)
        r = rng.random()
        if end == "a":
            if r < 0.5:
                body = f"{s1}...{s2}"
            elif r < 0.75:
                body = f"^{s1}...{s2}$"
            else:
                body = f"{s1};optional...{s2}"
        else:
            body = f"{s1}...{s2}" if r < 0.7 else f"^{s1}...{s2}"
        kind = "linked"
        seqs = [("front", s1), ("back", s2)]
        params = ""
    else:
        s = gen_adapter_seq(rng, wild=0.0 if simple else 0.15)
        edge = None
        if allow_params and not simple and rng.random() < 0.03:
            # a long adapter whose length times its error rate sits on a floating-point edge
            edge = rng.choice(RATE_EDGES)
            s = rand_seq(rng, edge[1])
        r = rng.random()
        if edge:
            r = 0.0  # never anchored: cutadapt's index of anchored adapters enumerates all variants within the error bound
        s_canon = s
        if not simple and not edge:
            # other spellings cutadapt accepts for the same adapter: lower case, U for T
            r_ = rng.random()
            if r_ < 0.04:
                s = s.lower()
            elif r_ < 0.07:
                s = s.replace("T", "U")
        if end == "a":
            if simple or r < 0.6:
                body, kind = s, "back"
            elif r < 0.8:
                body, kind = s + "$", "suffix"
            else:
                body, kind = s + "X", "back_nonint"
            seqs = [("back", s_canon)]
        elif end == "g":
            if simple or r < 0.55:
                body, kind = s, "front"
            elif r < 0.8:
                body, kind = "^" + s, "prefix"
            else:
                body, kind = "X" + s, "front_nonint"
            seqs = [("front", s_canon)]
        else:
            body, kind = s, "anywhere"
            seqs = [("any", s_canon)]
        params = ""
        if allow_params and not simple:
            if edge:
                params += f";e={edge[0]}"
            elif rng.random() < 0.2:
                params += f";e={rng.choice(['0', '0.1', '0.2', '0.34', '1', '2'])}"
            if kind not in ("prefix", "suffix") and rng.random() < 0.2:
                params += f";o={rng.randint(1, 8)}"
            if rng.random() < 0.1:
                params += ";noindels"
            if kind == "front" and rng.random() < 0.1:
                params += ";rightmost"
            elif kind in ("front", "back") and rng.random() < 0.1:
                params += ";anywhere"  # search parameter: the match may lie anywhere, removal stays 5'/3'
    spec = body + params
    if name:
        spec = f"{name}={spec}"
    return {"end": end, "spec": spec, "name": name, "kind": kind, "seqs": seqs}


def plant(rng, insert, adapter, errs):
    """Return a read sequence in which `adapter` occurs where its type expects it."""
    seq = insert
    for where, s in adapter["seqs"]:
        a = mutate(rng, s, errs)
        if "I" in a:
            a = "".join(rng.choice(BASES) if c == "I" else c for c in a)
        if where == "back" or (where == "any" and rng.random() < 0.5):
            r = rng.random()
            if r < 0.5:
                seq = seq + a + rand_seq(rng, rng.randint(0, 8))
            elif r < 0.8:
                seq = seq + a
            else:
                seq = seq + a[: rng.randint(1, len(a))]  # partial at the 3' end
        else:
            r = rng.random()
            if r < 0.5:
                seq = a + seq
            elif r < 0.8:
                seq = rand_seq(rng, rng.randint(0, 6)) + a + seq
            else:
                seq = a[rng.randrange(len(a)) :] + seq  # partial at the 5' end
    return seq


# ----------------------------------------------------------------------------- records


_COMP = str.maketrans("ACGTNacgtn", "TGCANtgcan")


def revcomp_seq(s):
    return s.translate(_COMP)[::-1]


def gen_read(rng, adapters, maxlen=60, upper_only=False, times=1, revcomp=False):
    r = rng.random()
    if r < 0.04:
        return ""
    n = rng.randint(1, maxlen) if r > 0.15 else rng.randint(1, 8)
    alphabet = BASES
    r2 = rng.random()
    if r2 < 0.15:
        alphabet = "ACGTN"
    elif r2 < 0.2 and not upper_only:
        alphabet = "ACGTacgtN"
    seq = rand_seq(rng, n, alphabet)
    if adapters and rng.random() < 0.65:
        ad = rng.choice(adapters)
        seq = plant(rng, seq, ad, rng.choice([0, 0, 0, 1, 1, 2]))
        if rng.random() < (0.15 if times == 1 else 0.5):  # a second occurrence (matters with --times)
            seq = plant(rng, seq, rng.choice(adapters), 0)
    if rng.random() < 0.12:
        seq += "A" * rng.randint(3, 15)  # poly-A tail
    if rng.random() < 0.06:
        seq = "N" * rng.randint(1, 5) + seq + "N" * rng.randint(0, 5)
    if revcomp and rng.random() < 0.45:
        seq = revcomp_seq(seq)  # the adapters are found only after reverse-complementing
    return seq


def gen_qual(rng, n):
    r = rng.random()
    if r < 0.3:
        alphabet = QUAL_FULL
    elif r < 0.6:
        alphabet = "!#+5?IJ"
    elif r < 0.8:
        alphabet = "FGHIJ"
    else:
        alphabet = "!\"#$%&"
    return "".join(rng.choices(alphabet, k=n)) if n > 0 else ""


def gen_records(rng, n, paired, fastq, adapters1, adapters2, maxlen=60, r2_maxlen=None, upper_only=False,
                times=1, revcomp=False):
    recs = []
    style = rng.choice(["none", "none", "casava", "text", "mixed"])
    casava_numbers = rng.choice([(1, 2), (1, 2), (1, 2), (2, 1), (2, 3), (1, 1)])
    for i in range(n):
        rid = f"rd{i:05d}"
        st = style if style != "mixed" else rng.choice(["none", "casava", "text"])
        if st == "casava":
            flag = rng.choice("NNNY")
            idx_ = rand_seq(rng, 6)
            flag2 = flag if rng.random() < 0.7 else rng.choice("NY")  # mates may disagree
            # the read number in the comment need not be the position of the file on the command line
            # (reverse reads given first, R2/R3 of a three-read run)
            n1_, n2_ = casava_numbers
            c1, c2 = f"{n1_}:{flag}:0:{idx_}", f"{n2_}:{flag2}:0:{idx_}"
        elif st == "text":
            c = rng.choice(["length=33", "x y", "foo;bar", "a=b c=d"])
            c1 = c2 = c
        else:
            c1 = c2 = ""
        s1 = gen_read(rng, adapters1, maxlen, upper_only, times, revcomp and not paired)
        if paired:
            s2 = gen_read(rng, adapters2, r2_maxlen or maxlen, upper_only, times)
            if revcomp and rng.random() < 0.4:
                s1, s2 = s2, s1  # paired --revcomp means: mates swapped
            q2 = gen_qual(rng, len(s2)) if fastq else None
        else:
            s2 = q2 = None
        q1 = gen_qual(rng, len(s1)) if fastq else None
        recs.append([rid, c1, c2, s1, q1, s2, q2])
    return recs


def rec_name(rec, which):
    c = rec[1] if which == 1 else rec[2]
    return rec[0] + (" " + c if c else "")


def records_plain(case):
    """(bytes for R1 stream, bytes for R2 stream or None) in the case's record format."""
    fastq = case["fmt"] == "fastq"
    r1 = [(rec_name(r, 1), r[3], r[4]) for r in case["records"]]
    r2 = [(rec_name(r, 2), r[5], r[6]) for r in case["records"]] if case["paired"] else None
    enc = fmt.fastq_bytes if fastq else fmt.fasta_bytes
    if case["input"].get("bam"):
        enc = fmt.bam_bytes
    return enc(r1), (enc(r2) if r2 is not None else None)


def interleave_plain(case):
    fastq = case["fmt"] == "fastq"
    out = []
    for r in case["records"]:
        out.append((rec_name(r, 1), r[3], r[4]))
        out.append((rec_name(r, 2), r[5], r[6]))
    return (fmt.fastq_bytes if fastq else fmt.fasta_bytes)(out)


# ----------------------------------------------------------------------------- input layout


def gen_input(rng, paired, fastq, containers=("",), p_interleaved=0.3, p_multimember=0.3, p_interleaved_fasta=0.0,
              p_comments_two_files=0.0, p_stdin=0.0, p_bam=0.0, p_devfd=0.0):
    ext = rng.choice([".fastq", ".fq"] if fastq else [".fasta", ".fa"])
    if rng.random() < 0.1:
        ext = ""  # no extension: xopen/dnaio must detect by content
    layout = "single"
    if paired:
        layout = "interleaved" if rng.random() < p_interleaved else "two"
        if layout == "interleaved" and not fastq and rng.random() >= p_interleaved_fasta:
            layout = "two"
    nfiles = 2 if layout == "two" else 1
    conts, members = [], []
    for _ in range(nfiles):
        c = rng.choice(containers)
        conts.append(c)
        members.append(rng.randint(2, 4) if c and rng.random() < p_multimember else 1)
    # FASTA files may start with '#' comment lines (accepted by dnaio and by cutadapt's detection)
    comments = rng.randint(1, 2) if (not fastq and rng.random() < 0.15) else 0
    if comments and layout == "two" and rng.random() >= p_comments_two_files:
        comments = 0
    # other legal spellings of the same records: CRLF line ends, no newline after the last line,
    # FASTA sequences wrapped over several lines
    text = {}
    r = rng.random()
    if r < 0.04:
        text["eol"] = "crlf"
    elif r < 0.09:
        text["final_newline"] = False
    elif r < 0.10:
        text["eol"] = "crlf"
        text["final_newline"] = False
    if not fastq and rng.random() < 0.25:
        text["wrap"] = rng.choice([1, 7, 10, 60, 70])
    out = {"layout": layout, "ext": ext, "containers": conts, "members": members, "comments": comments}
    if text:
        out["text"] = text
    if fastq and not paired and rng.random() < p_bam:
        # unaligned BAM (the instrument's or samtools' output): gzip members around the BAM stream
        out = {"layout": "single", "ext": ".bam", "containers": [""], "members": [rng.randint(1, 4)], "comments": 0, "bam": True}
    r_ = rng.random()
    if r_ < 0.08:
        out["stem"] = rng.choice(["_50%_R", "%20x", "%s", " copy", "_%d%%"])
    if rng.random() < p_devfd and ".gz" not in conts and not out.get("bam"):
        # bash process substitution: every input is a pipe given by its /dev/fd/N path
        out["devfd"] = True
    elif nfiles == 1 and rng.random() < p_stdin:
        # 'cutadapt ... -': the file is fed to standard input (a pipe when it fits into one)
        out["stdin"] = rng.choice(["pipe", "pipe", "file"])
        if conts[0] == ".gz" or out.get("bam"):
            # gzip data on a *pipe* is rejected ("File or stream is not seekable": detect_file_format
            # seeks in the gzip reader) with one core and with several alike - outside the claimed properties
            out["stdin"] = "file"
    return out


def style_plain(case, plain):
    """The plain text of one input stream in the spelling the case asks for (applied after
    record-level faults, which work on single-line LF text)."""
    text = case["input"].get("text")
    if not text or not plain:
        return plain
    w = text.get("wrap")
    if w and case["fmt"] == "fasta":
        out = []
        for ln in plain.split(b"\n"):
            if ln.startswith((b">", b"#")) or len(ln) <= w:
                out.append(ln)
            else:
                out.extend(ln[i : i + w] for i in range(0, len(ln), w))
        plain = b"\n".join(out)
    if text.get("final_newline") is False and plain.endswith(b"\n") and not plain.endswith(b"\n\n"):
        # (an empty last line without its newline would be ambiguous)
        plain = plain[:-1]
    if text.get("eol") == "crlf":
        plain = plain.replace(b"\n", b"\r\n")
    return plain


def plain_streams(case):
    """The LF, one-line-per-field text of each input stream."""
    inp = case["input"]
    if inp["layout"] == "two":
        return list(records_plain(case))
    if inp["layout"] == "interleaved":
        return [interleave_plain(case)]
    return [records_plain(case)[0]]


INPUT_NAME_RE = re.compile(r"^/simfs/in[12]?([%_ ][^./]*)?(\.[^/]*)?$")


def is_input_name(path):
    """Whether a SimFS path is one of the generated read files (in, in1, in2 + stem suffix + extensions)."""
    return bool(INPUT_NAME_RE.match(path))


def input_paths(case):
    inp = case["input"]
    sfx = inp.get("stem", "")  # sample names as people write them: 'dilution_50%_R1', 'reads%20x', 'in copy'
    if inp["layout"] == "two":
        return [f"{SIMFS}in1{sfx}{inp['ext']}{inp['containers'][0]}", f"{SIMFS}in2{sfx}{inp['ext']}{inp['containers'][1]}"]
    return [f"{SIMFS}in{sfx}{inp['ext']}{inp['containers'][0]}"]


def materialize(case, rng_for_members=None):
    """Build the SimFS input files of a case (before faults). Deterministic: member cut
    positions are stored in the case after the first materialisation."""
    import random

    inp = case["input"]
    paths = input_paths(case)
    plains = plain_streams(case)
    files = {}
    ncomm = inp.get("comments", 0) if case["fmt"] == "fasta" else 0
    for i, (p, plain) in enumerate(zip(paths, plains)):
        if ncomm:
            plain = b"".join(b"# comment line %d\n" % k for k in range(ncomm)) + plain
        plain = style_plain(case, plain)
        if inp.get("bam"):
            files[p] = fmt.compress(".gz", plain, rng=random.Random(case.get("member_seed", 0) * 31 + i), members=inp["members"][i])
            continue
        r = random.Random(case.get("member_seed", 0) * 31 + i)
        files[p] = fmt.compress(inp["containers"][i], plain, rng=r, members=inp["members"][i])
    for p, text in (case.get("aux_files") or {}).items():
        files[p] = text.encode("ascii")
    return files


# ----------------------------------------------------------------------------- options

OUT_EXT_FASTQ = [".fastq", ".fq"]
OUT_EXT_FASTA = [".fasta", ".fa"]


def out_name(rng, stem, fastq, out_containers, allow_fasta_for_fastq=True, cls=None):
    if cls is None:
        cls = out_class(rng, fastq, allow_fasta_for_fastq)
    return f"{SIMFS}{stem}{rng.choice(cls)}{rng.choice(out_containers)}"


def ext_class(path):
    base = fmt.strip_container(path).lower()
    if base.endswith((".fasta", ".fa")):
        return "fasta"
    if base.endswith((".fastq", ".fq")):
        return "fastq"
    return None


def out_class(rng, fastq, allow_fasta_for_fastq=True):
    """Extension class of one output (pair): both files of a pair get the same class --
    a pair of names asking for two different formats is not a documented request."""
    if fastq and not (allow_fasta_for_fastq and rng.random() < 0.25):
        return OUT_EXT_FASTQ
    return OUT_EXT_FASTA


def default_profile():
    return dict(
        paired=None,  # None = draw
        p_paired=0.5,
        fastq=None,
        p_fastq=0.85,
        n_records=(0, 40),
        maxlen=60,
        in_containers=("", "", "", ".gz", ".gz", ".bz2", ".xz", ".zst"),
        out_containers=("", "", "", ".gz", ".bz2", ".xz", ".zst"),
        p_adapters=0.9,
        p_modifiers=0.5,
        p_filters=0.5,
        p_redirect=0.5,
        p_untrimmed_opts=0.4,
        p_demux=0.15,
        p_combinatorial=0.4,
        p_info=0.3,
        p_rename=0.2,
        p_revcomp=0.12,
        p_pair_adapters=0.08,
        p_minimal_report=0.15,
        p_stdout=0.1,
        p_interleaved_out=0.25,
        allow_fasta_names_for_fastq=True,
        json=True,
        workers=(2, 5),
        simple_adapters=False,
        shorten_before_adapter=True,
        times=(1, 3),
        require_named=False,
        p_interleaved_fasta=1.0,  # (was 0 while interleaved FASTA + --cores>1 was known finding KF-C06-1)
        rename_template=None,  # (single-end template, paired template) forced onto every case
        force_suffix=None,  # -y value forced onto every case (no --rename then)
        p_decoy_adapter=0.0,  # an extra named adapter that is never planted (its file stays empty)
        force_info=False,
        revcomp_single_only=False,
        p_big=0.01,
        p_huge=0.004,
        p_long_read=0.006,
        p_interleaved_redirect=0.3,
        p_duplicate_adapter=0.03,
        p_many_adapters=0.004,
        p_tty=0.15,
        p_stdin=0.07,
        p_devnull=0.0,
        p_case_name=0.0,
        same_name_without_demux=False,  # (C20) same-named adapters also without {name} in the output
        p_long_tail=0.01,  # reads of 1-3 kb with the adapter a thousand bases from the end
        p_adjacent_duplicates=0.06,  # consecutive reads with identical sequences
        p_enospc=0.0,  # (C04) disk full behind one output file
        p_devfd=0.0,  # (C06, C12) inputs through /dev/fd/N pipes (process substitution)
        p_empty_adapter_file=0.0,  # (C05) an adapter file without records for the read that has no adapters
        p_same_r2=0.0,  # (C06, C20) R2 gets exactly the adapters of R1, names included
        p_bam=0.0,  # (C04, C06, C12) single-end input as unaligned BAM
        p_nonascii_name=0.0,  # (C06) an adapter name with a non-ASCII letter (it reaches the info file and the reports)
        p_giant=0.0,  # more than 65536 short reads
        p_qbase64=0.0,  # (C04, C06, C12: no per-read model of the quality options there)
        p_quiet=0.0,  # (checks that do not read the text report)
        p_debug=0.0,  # (checks that do not compare standard output)  # (C15) two adapter names that differ only in case  # (C04, C05, C06) redirect files sent to /dev/null
        p_emfile=0.08,
        p_same_name=0.0,  # (C15 only) demultiplexing: two different adapters that share a name (one file)
        p_adapter_file=0.12,  # (only when adapters are named) give one group of adapters as file:adapters.fasta
        p_unknown_name=0.0,  # an adapter literally named 'unknown' (legal with --discard-untrimmed/--untrimmed-output)
        p_comments_two_files=1.0,  # (was 0 while this was known finding KF-C06-3)
        p_mixed_pair=0.0,  # -o x.fastq -p y.fasta: only the check that owns KF-C06-2 generates it
        upper_only=False,  # reads over ACGTN only
    )


def gen_case(rng, profile=None):
    P = default_profile()
    if profile:
        P.update(profile)
    paired = P["paired"] if P["paired"] is not None else rng.random() < P["p_paired"]
    fastq = P["fastq"] if P["fastq"] is not None else rng.random() < P["p_fastq"]
    opts = []  # option groups (lists of argv words)
    outs = []
    meta = {}

    # ---- demultiplexing decision first: it constrains adapters
    demux = False
    if rng.random() < P["p_demux"]:
        demux = "combinatorial" if (paired and rng.random() < P["p_combinatorial"]) else "normal"
    pair_adapters = paired and not demux == "combinatorial" and rng.random() < P["p_pair_adapters"]
    revcomp = (not pair_adapters) and rng.random() < P["p_revcomp"] and not (paired and P["revcomp_single_only"])

    # ---- adapters
    ad1, ad2 = [], []
    many = False
    named = bool(demux) or P["require_named"] or rng.random() < 0.3
    if rng.random() < P["p_adapters"] or demux or pair_adapters:
        k1 = rng.choice([1, 1, 1, 2, 2, 3, 4]) if not demux else rng.randint(1, 4)
        indexed_set = (not pair_adapters) and rng.random() < 0.12
        many = False
        if named and not pair_adapters and demux != "combinatorial" and rng.random() < P["p_many_adapters"]:
            # a barcode set: several hundred anchored adapters (an index is built; > 255 of them)
            k1 = rng.randint(260, 330)
            indexed_set = True
            many = True
        for i in range(k1):
            nm = f"ad{i}" if named else None
            if indexed_set:
                s = rand_seq(rng, rng.randint(6, 10))
                end = "g"
                a = {"end": "g", "spec": (f"{nm}=" if nm else "") + "^" + s, "name": nm, "kind": "prefix", "seqs": [("front", s)]}
            else:
                end = rng.choice("aaaggb")
                a = gen_adapter(rng, end, nm, allow_linked=not pair_adapters, simple=P["simple_adapters"] or pair_adapters)
            ad1.append(a)
        if paired:
            want2 = demux == "combinatorial" or pair_adapters or rng.random() < 0.6
            if want2:
                k2 = k1 if pair_adapters else rng.choice([1, 1, 2, 3])
                for i in range(k2):
                    nm = f"bd{i}" if named else None
                    end = rng.choice("aaaggb")
                    ad2.append(gen_adapter(rng, end, nm, allow_linked=not pair_adapters, simple=P["simple_adapters"] or pair_adapters))
            if want2 and not demux and not pair_adapters and rng.random() < 0.25:
                ad1 = []  # adapters on R2 only
            if ad1 and not pair_adapters and demux != "combinatorial" and rng.random() < P["p_same_r2"]:
                # the same (named) adapters for both reads, as with one adapter file given to -a and -A
                ad2 = [dict(a) for a in ad1]
            if pair_adapters and len(ad1) >= 2 and len(ad2) == len(ad1) and rng.random() < 0.35:
                # dual-index layout: the same index sequence on one side is combined with different
                # ones on the other side (two ranks share an R1 or an R2 adapter sequence)
                side = rng.choice([ad1, ad2])
                i_, j_ = rng.sample(range(len(side)), 2)
                src_ = side[j_]
                body = src_["spec"].split("=", 1)[1] if (src_["name"] and "=" in src_["spec"]) else src_["spec"]
                dst_ = dict(src_)
                dst_["name"] = side[i_]["name"]
                dst_["spec"] = (f"{dst_['name']}=" if dst_["name"] else "") + body
                side[i_] = dst_
    if ad1 and not pair_adapters and rng.random() < P["p_duplicate_adapter"]:
        # the same adapter (type and sequence) given twice under two names: legal, only warned about
        src_ = rng.choice(ad1)
        if src_["kind"] != "linked":
            dup = dict(src_)
            dup["name"] = f"ad{len(ad1)}" if named else None
            body = src_["spec"].split("=", 1)[1] if (src_["name"] and "=" in src_["spec"]) else src_["spec"]
            dup["spec"] = (f"{dup['name']}=" if dup["name"] else "") + body
            ad1.append(dup)
    decoys = []
    if ad1 and rng.random() < P["p_decoy_adapter"]:
        nm = f"ad{len(ad1)}" if named else None
        s_ = rand_seq(rng, 14)
        decoys.append({"end": "a", "spec": (f"{nm}=" if nm else "") + s_, "name": nm, "kind": "back", "seqs": [("back", s_)]})
        if pair_adapters:
            nm2 = f"bd{len(ad2)}" if named else None
            s2_ = rand_seq(rng, 14)
            ad2.append({"end": "a", "spec": (f"{nm2}=" if nm2 else "") + s2_, "name": nm2, "kind": "back", "seqs": [("back", s2_)]})
    aux_files = {}
    in_file = set()
    if named and not pair_adapters and rng.random() < P["p_adapter_file"]:
        # the usual way to give many barcodes: -a file:adapters.fasta (names = FASTA headers)
        end_ = rng.choice("ag")
        group = [a for a in ad1 + decoys if a["end"] == end_ and a["name"] and ";" not in a["spec"] and a["kind"] != "linked"]
        if group:
            body = "".join(f">{a['name']}\n{a['spec'].split('=', 1)[1]}\n" for a in group)
            aux_files[f"{SIMFS}adapters_{end_}.fasta"] = body
            in_file = {id(a) for a in group}
            opts.append(["-" + end_, f"file:{SIMFS}adapters_{end_}.fasta"])
    for a in ad1 + decoys:
        if id(a) not in in_file:
            opts.append(["-" + a["end"], a["spec"]])
    for a in ad2:
        opts.append(["-" + a["end"].upper(), a["spec"]])
    if paired and not demux and not pair_adapters and bool(ad1) != bool(ad2) and rng.random() < P["p_empty_adapter_file"]:
        # a per-library adapter file that happens to hold no adapter: that read has no adapters
        aux_files[f"{SIMFS}no_adapters.fasta"] = ""
        opts.append(["-A" if ad1 else "-a", f"file:{SIMFS}no_adapters.fasta"])
    has_adapters = bool(ad1 or ad2)
    has_linked = any(a["kind"] == "linked" for a in ad1 + ad2)
    times = 1

    if has_adapters:
        if rng.random() < 0.25:
            opts.append(["-e", rng.choice(["0", "0.05", "0.2", "0.3", "1", "2"])])
        if rng.random() < 0.25:
            opts.append(["-O", str(rng.randint(1, 8))])
        if rng.random() < 0.1:
            opts.append(["--no-indels"])
        if rng.random() < 0.1:
            opts.append(["--match-read-wildcards"])
        if rng.random() < 0.07:
            opts.append(["-N"])
        if not pair_adapters and rng.random() < 0.3:
            times = rng.randint(*P["times"])
            if times > 1:
                opts.append(["-n", str(times)])
        if rng.random() < 0.35:
            actions = ["trim", "mask", "lowercase", "none"]
            if times == 1:
                actions.append("retain")
                if not has_linked:
                    actions.append("crop")  # crop + linked adapter crashes (unsupported, not ours)
            opts.append(["--action", rng.choice(actions)])
        if revcomp:
            opts.append(["--revcomp"])
        if pair_adapters:
            opts.append(["--pair-adapters"])
        if rng.random() < 0.05:
            opts.append(["--no-index"])

    # ---- other modifiers
    if rng.random() < P["p_modifiers"]:
        if P["shorten_before_adapter"]:
            if rng.random() < 0.3:
                opts.append(["-u", str(rng.choice([1, 3, 5, -1, -4, 0]))])
                if rng.random() < 0.3:
                    opts.append(["-u", str(-rng.randint(0, 4))]) if int(opts[-1][1]) > 0 else None
            if paired and rng.random() < 0.3:
                opts.append(["-U", str(rng.choice([1, 2, 6, -3, 0]))])
            if fastq and rng.random() < 0.3:
                opts.append(["-q", rng.choice(["10", "20", "5,15", "30,0", "40"])])
            if fastq and paired and rng.random() < 0.2:
                opts.append(["-Q", rng.choice(["15", "0,25", "0"])])
            if fastq and rng.random() < 0.12:
                opts.append(["--nextseq-trim", str(rng.choice([10, 20, 30]))])
        if rng.random() < 0.2:
            opts.append(["--poly-a"])
        if rng.random() < 0.2:
            opts.append(["-l", str(rng.choice([5, 15, 30, -10]))])
        if paired and rng.random() < 0.15:
            opts.append(["-L", str(rng.choice([4, 20, -8]))])
        if rng.random() < 0.2:
            opts.append(["--trim-n"])
        if rng.random() < 0.12:
            opts.append(["--length-tag", "length="])
        if rng.random() < 0.08:
            opts.append(["--strip-suffix", rng.choice(["=33", "bar", "d"])])  # never the digits of the id
        if fastq and rng.random() < 0.08:
            opts.append(["--zero-cap"])
    opts = [o for o in opts if o]
    rename = False
    if P.get("rename_template"):
        rename = True
        opts.append(["--rename", P["rename_template"][1 if paired else 0]])
    elif rng.random() < P["p_rename"]:
        rename = True
        fields = ["{comment}", "{adapter_name}", "{match_sequence}", "{cut_prefix}", "{cut_suffix}"]
        if not paired:
            fields.append("{rc}")
        if paired:
            fields += ["{r1.adapter_name}", "{r2.adapter_name}", "{rn}", "{r2.match_sequence}", "{r1.cut_prefix}"]
        rng.shuffle(fields)
        tpl = "{id} " + " ".join(f"f{i}={f}" for i, f in enumerate(fields[: rng.randint(1, 4)]))
        if rng.random() < 0.2:
            tpl = "{header}"
        opts.append(["--rename", tpl])
    elif P.get("force_suffix"):
        opts.append(["-y", P["force_suffix"]])
    elif rng.random() < 0.15:
        if rng.random() < 0.5:
            opts.append(["-x", rng.choice(["pre_", "{name}_"])])
        if rng.random() < 0.7:
            opts.append(["-y", rng.choice([" suf", " ad={name}", "_s"])])

    # ---- filters
    pair_filter = None
    if paired and rng.random() < 0.5:
        pair_filter = rng.choice(["any", "both", "first"])
        opts.append(["--pair-filter", pair_filter])
    minlen = maxlen = None
    if rng.random() < P["p_filters"]:
        if rng.random() < 0.6:
            if paired and rng.random() < 0.5:
                minlen = rng.choice(["10:5", ":8", "12:", "0:20", "3:3"])
            else:
                minlen = str(rng.choice([0, 1, 5, 10, 20, 35]))
            opts.append(["-m", minlen])
        if rng.random() < 0.4:
            if paired and rng.random() < 0.5:
                maxlen = rng.choice(["30:40", ":25", "45:", "20:20"])
            else:
                maxlen = str(rng.choice([15, 25, 40, 55]))
            opts.append(["-M", maxlen])
        if rng.random() < 0.25:
            opts.append(["--max-n", rng.choice(["0", "1", "3", "0.1", "0.5"])])
        if rng.random() < 0.25:
            opts.append(["--max-ee", rng.choice(["0.5", "1", "3.7", "10"])])
        if rng.random() < 0.25:
            opts.append(["--max-aer", rng.choice(["0.01", "0.1", "0.3"])])
        if rng.random() < 0.2:
            opts.append(["--discard-casava"])

    # ---- outputs
    OC = P["out_containers"]
    allowfa = P["allow_fasta_names_for_fastq"]
    interleaved_out = False
    untrimmed_mode = None
    if has_adapters and rng.random() < P["p_untrimmed_opts"]:
        choices = ["discard_untrimmed", "untrimmed_output"]
        if not demux:
            choices.append("discard_trimmed")
        if demux == "combinatorial":
            choices = ["discard_untrimmed"]
        untrimmed_mode = rng.choice(choices)
    # where the placeholder stands in the file name: after a literal prefix, or first (with relative
    # paths, see the 'relpaths' knob, it is then the first character of the whole template)
    tpre, tpost = rng.choice([("dm_", ""), ("dm_", ""), ("dm_", ""), ("", ""), ("", ""), ("s.1-", ""),
                              ("{", "}"), ("x{1}_", ""), ("a}b_", "")])  # (braces that are not placeholders stay as they are)
    if demux == "normal":
        ext = rng.choice(OUT_EXT_FASTQ if fastq else OUT_EXT_FASTA) + rng.choice(OC)
        if paired:
            twice = "_{name}" if rng.random() < 0.12 else ""
            outs.append(["-o", f"{SIMFS}{tpre}{{name}}{tpost}{twice}_1{ext}"])
            outs.append(["-p", f"{SIMFS}{tpre}{{name}}{tpost}{twice}_2{ext}"])
        else:
            twice = "_{name}" if rng.random() < 0.12 else ""
            outs.append(["-o", f"{SIMFS}{tpre}{{name}}{tpost}{twice}{ext}"])
    elif demux == "combinatorial":
        ext = rng.choice(OUT_EXT_FASTQ if fastq else OUT_EXT_FASTA) + rng.choice(OC)
        twice = "_{name2}{name1}" if rng.random() < 0.12 else ""
        tpre = tpre.replace("dm_", "cd_")
        outs.append(["-o", f"{SIMFS}{tpre}{{name1}}-{{name2}}{tpost}{twice}_1{ext}"])
        outs.append(["-p", f"{SIMFS}{tpre}{{name1}}-{{name2}}{tpost}{twice}_2{ext}"])
    else:
        if paired:
            if rng.random() < P["p_interleaved_out"]:
                interleaved_out = True
                if rng.random() < P["p_stdout"] * 2:
                    pass  # interleaved to stdout
                else:
                    outs.append(["-o", out_name(rng, "out_il", fastq, OC, allowfa)])
            else:
                pc = out_class(rng, fastq, allowfa)
                pc2 = pc
                if fastq and rng.random() < P["p_mixed_pair"]:
                    pc2 = OUT_EXT_FASTA if pc is OUT_EXT_FASTQ else OUT_EXT_FASTQ  # known finding KF-C06-2
                outs.append(["-o", out_name(rng, "out1", fastq, OC, allowfa, cls=pc)])
                outs.append(["-p", out_name(rng, "out2", fastq, OC, allowfa, cls=pc2)])
        else:
            if rng.random() < P["p_stdout"]:
                if fastq and rng.random() < 0.4:
                    outs.append(["--fasta"])
            else:
                outs.append(["-o", out_name(rng, "out", fastq, OC, allowfa)])
    if untrimmed_mode == "discard_untrimmed":
        outs.append(["--discard-untrimmed"])
    elif untrimmed_mode == "discard_trimmed":
        outs.append(["--discard-trimmed"])
    elif untrimmed_mode == "untrimmed_output":
        if paired and (not interleaved_out or rng.random() < 0.3):  # (two redirect files next to an interleaved main output are legal)
            pc = out_class(rng, fastq, allowfa)
            outs.append(["--untrimmed-output", out_name(rng, "untr1", fastq, OC, allowfa, cls=pc)])
            outs.append(["--untrimmed-paired-output", out_name(rng, "untr2", fastq, OC, allowfa, cls=pc)])
        else:
            outs.append(["--untrimmed-output", out_name(rng, "untr", fastq, OC, allowfa)])
    if minlen is not None and rng.random() < P["p_redirect"]:
        if paired and (not interleaved_out or rng.random() < 0.3):
            pc = out_class(rng, fastq, allowfa)
            outs.append(["--too-short-output", out_name(rng, "short1", fastq, OC, allowfa, cls=pc)])
            outs.append(["--too-short-paired-output", out_name(rng, "short2", fastq, OC, allowfa, cls=pc)])
        else:
            outs.append(["--too-short-output", out_name(rng, "short", fastq, OC, allowfa)])
    if maxlen is not None and rng.random() < P["p_redirect"]:
        if paired and (not interleaved_out or rng.random() < 0.3):
            pc = out_class(rng, fastq, allowfa)
            outs.append(["--too-long-output", out_name(rng, "long1", fastq, OC, allowfa, cls=pc)])
            outs.append(["--too-long-paired-output", out_name(rng, "long2", fastq, OC, allowfa, cls=pc)])
        else:
            outs.append(["--too-long-output", out_name(rng, "long", fastq, OC, allowfa)])
    if (has_adapters and rng.random() < P["p_info"]) or P.get("force_info"):
        outs.append(["--info-file", f"{SIMFS}info.tsv{rng.choice(['', '', '.gz'])}"])
    # rest/wildcard files crash with linked adapters (a TODO in steps.py; not one of our properties)
    if has_adapters and not has_linked and rng.random() < P["p_info"] / 2:
        outs.append(["-r", f"{SIMFS}rest.txt"])
    if has_adapters and not has_linked and rng.random() < P["p_info"] / 2:
        outs.append(["--wildcard-file", f"{SIMFS}wild.txt{rng.choice(['', '.gz'])}"])
    if rng.random() < 0.06:
        outs.append(rng.choice([["-Z"], ["--compression-level", "2"], ["--compression-level", "5"], ["--compression-level", "9"]]))
    if rng.random() < 0.03:
        outs.append(["--gc-content", rng.choice(["30", "62.5"])])
    if P["json"]:
        outs.append(["--json", f"{SIMFS}report.json"])
    if rng.random() < P["p_minimal_report"]:
        outs.append(["--report", "minimal"])

    # ---- records and input
    lo, hi = P["n_records"]
    r = rng.random()
    n = 0 if r < 0.03 else (rng.randint(1, 3) if r < 0.1 else rng.randint(lo, hi))
    rb = rng.random()
    big = 2 if rb < P["p_huge"] else (1 if rb < P["p_huge"] + P["p_big"] else 0)
    want_same_name = (demux == "normal" or (not demux and P["same_name_without_demux"])) and rng.random() < P["p_same_name"]
    plant1 = ad1
    if many and len(ad1) > 200:
        # samples of very unequal depth: most reads carry the first or the last barcode of the list -
        # which half of the time are two barcodes of one sample (same name, far apart)
        deep = [ad1[0], ad1[-1]]
        plant1 = deep * 900 + ad1
        if demux == "normal" and rng.random() < 0.5:
            want_same_name = "ends"
        if not big and rng.random() < 0.7:
            big = rng.choice([1, 2, 2])
    if want_same_name and not big and rng.random() < 0.2:
        # names that share a file matter once the file is larger than the writers' buffers
        big = 1
    if not big and rng.random() < P["p_giant"]:
        big = 3
    if big == 3:
        # more reads than a 16-bit counter holds (and than any batch size in the code), kept short
        n = rng.randint(66000, 72000) if rng.random() < 0.6 else rng.randint(100500, 104000)
        P = dict(P, maxlen=24)
    elif big:
        # a few large inputs per batch (hundreds of KiB; rarely several MiB with chunks of
        # 0.3-1 MiB), so that size-dependent paths (buffer re-use thresholds, pipe-sized
        # messages, compressor block sizes) run at all
        n = rng.randint(2500, 6000) if big == 1 else rng.randint(12000, 20000)
        if many and big == 2:
            n = rng.randint(24000, 30000)  # (enough reads for the deep samples to fill the writers' buffers)
        P = dict(P, maxlen=150)
    r2max = P["maxlen"]
    if paired and rng.random() < 0.3:
        r2max = rng.choice([8, 15, 120])  # very different R1/R2 lengths: chunk limits differ
    records = gen_records(rng, n, paired, fastq, plant1, ad2, P["maxlen"], r2max, P["upper_only"], times, revcomp)
    if records and not big and rng.random() < P["p_long_tail"]:
        # reads of a few kb (amplicons, long-read data) with the adapters far from the ends: removed
        # sequences of a thousand bases and more, the same lengths again and again
        lens = [rng.choice([1030, 1100, 1500]), rng.choice([1024, 2100, 3020])]
        at_end = rng.random() < 0.6
        for r_ in records:
            if rng.random() < 0.6:
                L = rng.choice(lens)
                extra, equal = rand_seq(rng, L), gen_qual(rng, L)
                r_[3] = r_[3] + extra if at_end else extra + r_[3]
                if r_[4] is not None:
                    r_[4] = r_[4] + equal if at_end else equal + r_[4]
    if len(records) >= 2 and rng.random() < P["p_adjacent_duplicates"]:
        # PCR duplicates: a read (pair) with exactly the sequences of the one before it, under its own name
        for k_ in range(1, len(records)):
            if rng.random() < 0.25:
                for fi in (3, 4, 5, 6):
                    records[k_][fi] = records[k_ - 1][fi]
    if records and big and not many and rng.random() < (0.5 if big < 3 else 0.8):
        # a file whose composition changes along its length (a run that starts badly): the first part
        # holds mostly very short reads, so what each chunk contributes to each output file varies
        cut = int(len(records) * rng.uniform(0.2, 0.7))
        for r_ in records[:cut]:
            if rng.random() < 0.92:
                L = rng.randint(0, 12 if big < 3 else 6)
                r_[3] = r_[3][:L]
                r_[4] = r_[4][:L] if r_[4] is not None else None
                if paired:
                    r_[5] = r_[5][:L]
                    r_[6] = r_[6][:L] if r_[6] is not None else None
        if not any(g[0] == "-m" for g in opts) and rng.random() < 0.6:
            opts.append(["-m", "20" if big < 3 else "8"])
    if records and not big and rng.random() < P["p_long_read"]:
        # one or two very long reads (long-read technologies): lengths beyond 16-bit limits
        for _ in range(rng.randint(1, 2)):
            r_ = rng.choice(records)
            for si, qi in ((3, 4), (5, 6)) if paired else ((3, 4),):
                if rng.random() < 0.7:
                    L = rng.randint(66000, 140000)
                    r_[si] = rand_seq(rng, L) + r_[si]
                    if r_[qi] is not None:
                        r_[qi] = gen_qual(rng, L) + r_[qi]
    if fastq and records and rng.random() < P["p_qbase64"]:
        # an old Illumina file: qualities encoded with offset 64
        opts.append(["--quality-base", "64"])
        for r_ in records:
            for qi in (4, 6):
                if r_[qi]:
                    r_[qi] = "".join(chr(min(126, ord(c) + 31)) for c in r_[qi])
    r_ = rng.random()
    if r_ < P["p_quiet"]:
        if not any(g[0] == "--report" for g in outs):
            outs.append(["--quiet"])
    elif r_ < P["p_quiet"] + P["p_debug"]:
        outs.append(["--debug"])
    inp = gen_input(rng, paired, fastq, P["in_containers"], p_interleaved_fasta=P["p_interleaved_fasta"],
                    p_comments_two_files=P["p_comments_two_files"], p_stdin=P["p_stdin"], p_bam=P["p_bam"], p_devfd=P["p_devfd"])
    if inp.get("stdin") == "pipe" and records and not big and rng.random() < 0.12:
        # a long read arriving through a pipe (its record is larger than the pipe's 64 KiB capacity)
        r_ = rng.choice(records)
        L = rng.randint(40000, 120000)
        r_[3] = rand_seq(rng, L) + r_[3]
        if r_[4] is not None:
            r_[4] = gen_qual(rng, L) + r_[4]
    if inp["layout"] == "interleaved" or interleaved_out:
        outs.append(["--interleaved"])
    if inp["layout"] == "interleaved" and paired and not interleaved_out and demux != "combinatorial":
        # with --interleaved given for the input, a redirect/untrimmed option may be used WITHOUT its
        # -paired- counterpart: that file is then written interleaved while the main output is two files
        for flag in ("--too-short-paired-output", "--too-long-paired-output", "--untrimmed-paired-output"):
            if any(g[0] == flag for g in outs) and rng.random() < P["p_interleaved_redirect"]:
                if flag == "--untrimmed-paired-output" and demux:
                    # R2 of the untrimmed pairs then goes to the 'unknown' file of the -p template:
                    # only done when both names ask for the same format (see KF-C06-2)
                    uo_ = next(g[1] for g in outs if g[0] == "--untrimmed-output")
                    tp_ = next(g[1] for g in outs if g[0] == "-p")
                    if ext_class(uo_) != ext_class(tp_):
                        continue
                outs = [g for g in outs if g[0] != flag]

    names1 = [a["name"] for a in ad1 + decoys]
    if want_same_name and len(names1) >= 2 and not aux_files:
        # two barcodes of one sample: two adapters (different sequences) under the same name
        k_, j_ = rng.sample(range(len(names1)), 2)
        if want_same_name == "ends":
            k_, j_ = len(ad1) - 1, 0
        old = names1[k_]
        if old is not None and names1[j_] is not None and old != names1[j_]:
            for g in opts:
                if g[0] in ("-a", "-g", "-b") and g[1].startswith(old + "="):
                    g[1] = names1[j_] + "=" + g[1][len(old) + 1 :]
            names1[k_] = names1[j_]
    elif demux == "normal" and len(names1) >= 2 and not aux_files and rng.random() < P["p_case_name"]:
        # two sample names that differ only in letter case are two samples (two files)
        k_, j_ = rng.sample(range(len(names1)), 2)
        old, new = names1[k_], (names1[j_] or "").upper()
        if old is not None and new and new not in names1:
            for g in opts:
                if g[0] in ("-a", "-g", "-b") and g[1].startswith(old + "="):
                    g[1] = new + "=" + g[1][len(old) + 1 :]
            names1[k_] = new
    if (not demux and not aux_files and names1 and names1[0] is not None and rng.random() < P["p_nonascii_name"]
            and not any(g[0] in ("-x", "-y", "--rename") for g in opts)):
        # a sample name as people write it: it ends up in the info file and in the reports
        old, new = names1[0], rng.choice(["adapt\u00e9", "\u00b5RNA", "Stra\u00dfe1", "\u03b1-tag"])
        for g in opts:
            if g[0] in ("-a", "-g", "-b") and g[1].startswith(old + "="):
                g[1] = new + "=" + g[1][len(old) + 1 :]
        names1[0] = new
    if demux == "normal" and names1 and rng.random() < P["p_unknown_name"] and (
        untrimmed_mode == "discard_untrimmed" or (untrimmed_mode == "untrimmed_output" and not paired)
    ):
        # an adapter may legally be called 'unknown' when the default unknown file is not in use
        k = rng.randrange(len(names1))
        old = names1[k]
        names1 = ["unknown" if x == old else x for x in names1]
        for g in opts:
            if g[0] in ("-a", "-g", "-b") and g[1].startswith(old + "="):
                g[1] = "unknown=" + g[1][len(old) + 1 :]
        for pth in list(aux_files):
            aux_files[pth] = aux_files[pth].replace(f">{old}\n", ">unknown\n")
    if rng.random() < P["p_devnull"]:
        # a redirect file nobody wants to keep: /dev/null for the file, for one mate's file or for both
        for f1, f2 in (("--too-short-output", "--too-short-paired-output"), ("--too-long-output", "--too-long-paired-output"),
                       ("--untrimmed-output", "--untrimmed-paired-output")):
            g1 = next((g for g in outs if g[0] == f1), None)
            g2 = next((g for g in outs if g[0] == f2), None)
            if g1 is None or demux or rng.random() < 0.4:
                continue
            r_ = rng.random()
            if g2 is None or r_ < 0.3:
                g1[1] = "/dev/null"
                if g2 is not None:
                    g2[1] = "/dev/null"
            elif r_ < 0.65:
                g1[1] = "/dev/null"
            else:
                g2[1] = "/dev/null"
    case = {
        "fmt": "fastq" if fastq else "fasta",
        "paired": paired,
        "aux_files": aux_files,
        "records": records,
        "input": inp,
        "member_seed": rng.randrange(1 << 30),
        "opts": opts,
        "outs": outs,
        "faults": [],
        "meta": {
            "demux": demux,
            "pair_adapters": pair_adapters,
            "revcomp": revcomp,
            "rename": rename,
            "untrimmed_mode": untrimmed_mode,
            "interleaved_out": interleaved_out,
            "pair_filter": pair_filter,
            "names1": names1,
            "names2": [a["name"] for a in ad2],
            "n_ad1": len(ad1) + len(decoys),
            "n_ad2": len(ad2),
            "big": big,
        },
    }
    case["knobs"] = gen_knobs(rng, case, P)
    return case


def record_sizes(case):
    """Byte size of each plain record (per input stream) -- for buffer-size decisions."""
    fastq = case["fmt"] == "fastq"
    text = case["input"].get("text") or {}
    eol = 2 if text.get("eol") == "crlf" else 1
    w = text.get("wrap") if not fastq else None

    def size(name, s):
        if case["input"].get("bam"):
            return fmt.bam_record_size(name, s)
        if fastq:
            return len(name) + 1 + len(s) + 1 + len(s) + 4 * eol
        lines = max(1, -(-len(s) // w)) if w else 1
        return len(name) + 1 + len(s) + (1 + lines) * eol

    s1 = [size(rec_name(r, 1), r[3]) for r in case["records"]]
    s2 = [size(rec_name(r, 2), r[5]) for r in case["records"]] if case["paired"] else []
    return s1, s2


def gen_knobs(rng, case, P=None):
    from . import policies

    P = dict(default_profile(), **(P or {}))
    s1, s2 = record_sizes(case)
    if case["input"]["layout"] == "interleaved":
        per = [a + b for a, b in zip(s1, s2)]
    else:
        per = [max(a, b) for a, b in zip(s1, s2)] if s2 else s1
    biggest = max(per) if per else 16
    total = sum(per) if per else 16
    r = rng.random()
    # dnaio needs a whole record (pair: two records for interleaved) in the buffer
    floor = 2 * biggest + 8 + 20 * (case["input"].get("comments") or 0)
    if r < 0.25:
        buf = floor + rng.randint(0, 16)
    elif r < 0.85:
        buf = rng.randint(floor, max(floor + 1, total // rng.randint(1, 6) + floor))
    else:
        buf = max(floor, total + rng.randint(1, 100))
    if case.get("meta", {}).get("big"):
        buf = max(floor, total // (rng.randint(3, 9) if case["meta"]["big"] == 1 else rng.randint(3, 6)))
        if case["meta"]["big"] in (2, 3) and rng.random() < 0.4:
            # everything in one or two chunks: more than 10000 reads (the progress batch size) per chunk
            buf = max(floor, total // rng.randint(1, 2) + 1000)
    nofinal_ = (case["input"].get("text") or {}).get("final_newline") is False
    if not case.get("meta", {}).get("big") and rng.random() < (0.5 if nofinal_ else 0.06):
        # boundary values: the buffer is exactly as large as one of the input streams (or one byte off), so
        # that a fill of the reader ends exactly where the data end
        text_ = case["input"].get("text") or {}
        sizes_ = []
        for s_ in (s1, s2) if (s2 and case["input"]["layout"] == "two") else ([[a + b for a, b in zip(s1, s2)]] if s2 else [s1]):
            n_ = sum(s_)
            if text_.get("final_newline") is False and n_:
                n_ -= 2 if text_.get("eol") == "crlf" else 1
            sizes_.append(n_)
        cand = rng.choice(sizes_) + rng.choice([-1, 0, 0, 0, 1])
        if cand >= floor:
            buf = cand
    workers = rng.randint(*P["workers"])
    if case.get("meta", {}).get("big") == 2 and rng.random() < 0.5:
        workers = P["workers"][0]  # few workers, several large chunks: a worker gets a large chunk and then another
    knobs = {
        "workers": workers,
        "buffer_size": buf,
        "capacity": rng.choice([64, 1024, 65536, 65536, None]),
        "feeder": rng.random() < 0.7,
        "policy": policies.draw_policy(rng, workers),
        "sched_seed": rng.randrange(1 << 60),
    }
    # the machine the run happens on (drawn from a second stream so that older cases keep
    # their schedules): process start method, terminal on standard error, which compressed
    # formats go through an external program, and one open() failing with EMFILE
    import random as _random

    e = _random.Random(knobs["sched_seed"] ^ 0x5EED)
    knobs["start_method"] = e.choice(["fork", "spawn", "spawn"])
    knobs["tty"] = e.random() < P["p_tty"]
    knobs["piped_exts"] = e.choice([[], [".xz", ".zst"], [".xz", ".zst"], [".gz", ".bz2", ".xz", ".zst"]])
    knobs["emfile_at"] = e.randint(1, 12) if e.random() < P["p_emfile"] else None
    if knobs["emfile_at"] is not None and e.random() < 0.4:
        # the limit is reached a second time later in the run
        knobs["emfile_at"] = [knobs["emfile_at"], knobs["emfile_at"] + e.randint(1, 10)]
    knobs["relpaths"] = e.random() < 0.3  # run in the data directory and name all files relative to it
    knobs["preexist"] = e.random() < 0.15  # the named output files exist already (a re-run)
    knobs["cpus"] = e.choice([1, 1, 2, 3, 16, 16, 64])  # CPUs the job may use (cpuset, affinity, small container)
    if e.random() < P["p_enospc"]:
        # the file system runs full while one of the outputs is written; the error surfaces at flush/close
        knobs["enospc"] = {"nth": e.randint(1, 3), "quota": e.choice([0, e.randint(1, 400), e.randint(400, 4000)])}
    if case["input"].get("stdin"):
        knobs["stdin_kind"] = case["input"]["stdin"]
    if case["input"].get("devfd"):
        knobs["devfd"] = True
    if (case["input"].get("devfd") or case["input"].get("stdin") == "pipe") and e.random() < 0.45:
        # a slow producer at the other end of the pipe: reads come in small pieces, so that chunks are
        # much smaller than --buffer-size - which half of these cases leave at its default of 4 MB
        knobs["short_reads"] = e.choice([64, 200, 1000, 4096])
        knobs["default_buffer"] = e.random() < 0.5
        if knobs["default_buffer"]:
            # many small chunks under the default buffer size; often with one worker descheduled for long,
            # so that the results of all later chunks pile up in the main process
            knobs["short_reads"] = e.choice([64, 128, 200])
            if e.random() < 0.6:
                lo = e.randrange(5, 60)
                knobs["policy"] = {"kind": "starve", "victim": e.randrange(2, workers + 2), "window": [lo, lo + 20000]}
        # (a piece is never so small that the input falls into more than a few hundred chunks)
        knobs["short_reads"] = max(knobs["short_reads"], total // 250)
        if case.get("meta", {}).get("n_ad1", 0) > 100:
            # hundreds of output files: every chunk costs several hundred scheduler steps
            knobs["short_reads"] = max(knobs["short_reads"], total // 12)
    return knobs


LONG_FORMS = {
    "-a": "--adapter", "-g": "--front", "-b": "--anywhere", "-e": "--error-rate", "-O": "--overlap", "-n": "--times",
    "-u": "--cut", "-q": "--quality-cutoff", "-l": "--length", "-m": "--minimum-length", "-M": "--maximum-length",
    "-o": "--output", "-p": "--paired-output", "-x": "--prefix", "-y": "--suffix", "-r": "--rest-file",
    "--max-ee": "--max-expected-errors", "--max-aer": "--max-average-error-rate", "--revcomp": "--rc",
    "-N": "--no-match-adapter-wildcards",
}
ORDER_SENSITIVE = {"-a", "-g", "-b", "-A", "-G", "-B", "-u", "-U"}


def _styled(case, groups):
    """The same options spelled and ordered differently (long forms, '--opt=value', shuffled);
    adapter and -u/-U options keep their relative order because it is meaningful."""
    import random

    style = case.get("knobs", {}).get("sched_seed", 0) % 4
    if style == 0:
        return [list(g) for g in groups]
    r = random.Random(case["knobs"]["sched_seed"] >> 3)
    out = []
    for g in groups:
        g = list(g)
        if g[0] in LONG_FORMS and r.random() < 0.5:
            g[0] = LONG_FORMS[g[0]]
            if len(g) == 2 and g[0] != "--rc" and r.random() < 0.5 and not g[1].startswith("-"):
                g = [g[0] + "=" + g[1]]
        out.append(g)
    if style >= 2:
        fixed = [i for i, g in enumerate(groups) if g[0] in ORDER_SENSITIVE]
        free = [i for i, g in enumerate(groups) if g[0] not in ORDER_SENSITIVE]
        r.shuffle(free)
        order = sorted(fixed + free[: len(free)], key=lambda i: (fixed.index(i) if i in fixed else -1, 0)) if False else None
        merged, fi, fr = [], iter(fixed), iter(free)
        slots = sorted(fixed + free)
        pick_fixed = set(r.sample(slots, len(fixed))) if fixed else set()
        for pos in slots:
            merged.append(next(fi) if pos in pick_fixed else next(fr))
        out = [out[i] for i in merged]
    return out


def build_argv(case, cores=1, opts=None, outs=None, extra=()):
    argv = []
    groups = list(case["opts"] if opts is None else opts) + list(case["outs"] if outs is None else outs)
    for g in _styled(case, groups):
        argv += g
    argv += list(extra)
    if cores > 1:
        argv += ["-j", str(cores)]
        if not case["knobs"].get("default_buffer"):
            argv += ["--buffer-size", str(case["knobs"]["buffer_size"])]
    if case["input"].get("stdin"):
        argv.append("-")  # always the last argument: engine.Ctx.run feeds the input file to standard input
    else:
        argv += input_paths(case)
    return argv
