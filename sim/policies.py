"""Scheduling policies (DESIGN §3.2). Every policy chooses only among enabled events."""
import random


class ReplayChooser:
    """Take every decision from an explicit list; lowest-id-first when it runs out."""

    def __init__(self, choices):
        self.choices = list(choices)
        self.i = 0

    def choose(self, kern, enabled):
        if self.i < len(self.choices):
            c = self.choices[self.i]
            self.i += 1
            return c if 0 <= c < len(enabled) else 0
        self.i += 1
        return 0


class PolicyChooser:
    """
    policy: dict(kind=..., ...) drawn by the generator; rng: random.Random owned by the run.
    kinds: uniform | pct | sticky | starve | rr | lowest
    """

    def __init__(self, policy, rng):
        self.p = policy
        self.rng = rng
        self.kind = policy["kind"]
        self.last = None
        self.prio = {}
        self.drop_points = set(policy.get("drops", ()))
        self.rr = 0

    def _key(self, ev):
        return ev  # ("task", tid) or ("feed", qid, tid)

    def choose(self, kern, enabled):
        n = len(enabled)
        kind = self.kind
        if n == 1:
            # still consume nothing: single choice is forced
            self.last = enabled[0]
            return 0
        if kind == "uniform":
            i = self.rng.randrange(n)
        elif kind == "lowest":
            i = 0
        elif kind == "highest":
            i = n - 1
        elif kind == "rr":
            self.rr += 1
            i = self.rr % n
        elif kind == "sticky":
            if self.last in enabled and self.rng.random() < self.p["p"]:
                i = enabled.index(self.last)
            else:
                i = self.rng.randrange(n)
        elif kind == "pct":
            for ev in enabled:
                if ev not in self.prio:
                    self.prio[ev] = self.rng.random() + 1.0
            if kern.step in self.drop_points and self.last in self.prio:
                self.prio[self.last] = self.rng.random()  # below every initial priority
            i = max(range(n), key=lambda j: self.prio[enabled[j]])
        elif kind == "starve":
            victim = ("task", self.p["victim"])
            lo, hi = self.p["window"]
            if lo <= kern.step < hi:
                others = [j for j in range(n) if enabled[j] != victim]
                if others:
                    i = others[self.rng.randrange(len(others))]
                else:
                    i = 0
            else:
                i = self.rng.randrange(n)
        else:
            raise ValueError(kind)
        self.last = enabled[i]
        return i


def draw_policy(rng, n_workers):
    r = rng.random()
    if r < 0.30:
        return {"kind": "uniform"}
    if r < 0.50:
        d = rng.randint(1, 4)
        return {"kind": "pct", "drops": sorted(rng.randrange(1, 400) for _ in range(d - 1))}
    if r < 0.70:
        return {"kind": "sticky", "p": rng.choice([0.5, 0.8, 0.95])}
    if r < 0.74:
        # one worker is descheduled for a long time (swapped out, stopped): everything the others finish
        # meanwhile has to wait in the ordered writer
        lo = rng.randrange(5, 80)
        return {"kind": "starve", "victim": rng.randrange(2, n_workers + 2), "window": [lo, lo + 6000]}
    if r < 0.90:
        lo = rng.randrange(0, 60)
        # victim: 0 = the collecting main process, 1 = the reader, 2.. = workers
        return {"kind": "starve", "victim": rng.randrange(0, n_workers + 2), "window": [lo, lo + rng.randrange(20, 400)]}
    if r < 0.94:
        return {"kind": "rr"}
    if r < 0.97:
        return {"kind": "highest"}
    return {"kind": "lowest"}
