"""
Independent readers/writers for the record formats, used by generators and oracles only.
Nothing here imports cutadapt, dnaio or xopen: containers are handled by the standard
library (zstd: the backports.zstd wheel, the only zstd codec on this image).
"""
import bz2
import gzip
import io
import lzma
import zlib

try:  # Python >= 3.14
    from compression import zstd as _zstd  # type: ignore
except Exception:  # pragma: no cover
    try:
        from backports import zstd as _zstd  # type: ignore
    except Exception:
        _zstd = None

COMPRESSIONS = ("", ".gz", ".bz2", ".xz", ".zst")


class FormatError(Exception):
    pass


def container_of(path):
    for ext in (".gz", ".bz2", ".xz", ".zst"):
        if path.endswith(ext):
            return ext
    return ""


def strip_container(path):
    c = container_of(path)
    return path[: -len(c)] if c else path


def decompress(path, data):
    """Decompress by file name; raises FormatError on a damaged container."""
    c = container_of(path)
    try:
        if c == ".gz":
            return gzip_decompress_all(data)
        if c == ".bz2":
            return bz2.decompress(data)
        if c == ".xz":
            return lzma.decompress(data)
        if c == ".zst":
            if _zstd is None:
                raise FormatError("no zstd codec")
            if not data:
                return b""  # the zstd library writes no frame at all when nothing was written
            return zstd_decompress_all(data)
    except FormatError:
        raise
    except Exception as e:
        raise FormatError(f"{path}: {type(e).__name__}: {e}")
    return data


def decompress_prefix(container, data):
    """What a streaming decoder can get out of a damaged (truncated) container: the decodable
    prefix of the plain stream. Used only to find out which records a fault can have touched."""
    if container == "":
        return data
    out = []
    pos = 0
    try:
        while pos < len(data):
            if container == ".gz":
                d = zlib.decompressobj(wbits=31)
            elif container == ".bz2":
                d = bz2.BZ2Decompressor()
            elif container == ".xz":
                d = lzma.LZMADecompressor()
            else:
                return b""
            chunk = data[pos:]
            # feed in small pieces so that everything before the damage is returned
            fed = 0
            while fed < len(chunk) and not d.eof:
                piece = chunk[fed : fed + 64]
                fed += len(piece)
                out.append(d.decompress(piece))
            if not d.eof:
                break
            pos += fed - len(d.unused_data)
    except Exception:
        pass
    return b"".join(out)


def gzip_decompress_all(data):
    """All members, judged by zlib; empty input is an empty file (as gzip -d would refuse,
    but xopen treats a zero-byte .gz as empty)."""
    out = []
    pos = 0
    if not data:
        return b""
    while pos < len(data):
        d = zlib.decompressobj(wbits=31)
        try:
            out.append(d.decompress(data[pos:]))
            out.append(d.flush())
        except zlib.error as e:
            raise FormatError(f"gzip: {e}")
        if not d.eof:
            raise FormatError("gzip: truncated stream")
        unused = d.unused_data
        pos = len(data) - len(unused)
        # trailing zero padding is tolerated by gzip tools
        if unused and not unused.strip(b"\0"):
            break
    return b"".join(out)


def zstd_decompress_all(data):
    out = []
    with _zstd.open(io.BytesIO(data), "rb") as f:
        out.append(f.read())
    return b"".join(out)


def compress(container, data, rng=None, members=1):
    """
    Compress for an *input* file. members>1 splits the plain stream at arbitrary byte
    positions into concatenated members/streams/frames (a legal encoding of the same data).
    """
    if container == "":
        return data
    if members > 1 and rng is not None and len(data) > 1:
        cuts = sorted(rng.randrange(0, len(data) + 1) for _ in range(members - 1))
        parts = [data[a:b] for a, b in zip([0] + cuts, cuts + [len(data)])]
    else:
        parts = [data]
    out = []
    for p in parts:
        if container == ".gz":
            buf = io.BytesIO()
            with gzip.GzipFile(fileobj=buf, mode="wb", mtime=0, compresslevel=6) as g:
                g.write(p)
            out.append(buf.getvalue())
        elif container == ".bz2":
            out.append(bz2.compress(p))
        elif container == ".xz":
            out.append(lzma.compress(p))
        elif container == ".zst":
            out.append(_zstd.compress(p))
        else:
            raise ValueError(container)
    return b"".join(out)


# ------------------------------------------------------------------------- records


def fastq_bytes(records):
    """records: iterable of (name, seq, qual)."""
    return "".join(f"@{n}\n{s}\n+\n{q}\n" for n, s, q in records).encode("ascii")


def fasta_bytes(records):
    return "".join(f">{r[0]}\n{r[1]}\n" for r in records).encode("ascii")


_BAM_CODES = {c: i for i, c in enumerate("=ACMGRSVTWYHKDBN")}
_BAM_LETTERS = "=ACMGRSVTWYHKDBN"
BAM_HEADER_TEXT = b"@HD\tVN:1.6\tSO:unsorted\n"


def bam_record_size(name, seq):
    return 4 + 32 + len(name.encode()) + 1 + (len(seq) + 1) // 2 + len(seq)


def bam_header_size():
    return 4 + 4 + len(BAM_HEADER_TEXT) + 4


def bam_bytes(records):
    """Unaligned BAM (uncompressed stream; the caller wraps it in gzip members as BGZF does):
    records are (name, seq, qual). Written from the format specification, not with dnaio."""
    import struct

    out = [b"BAM\1", struct.pack("<i", len(BAM_HEADER_TEXT)), BAM_HEADER_TEXT, struct.pack("<i", 0)]
    for name, seq, qual in records:
        rn = name.encode("ascii") + b"\0"
        n = len(seq)
        packed = bytearray((n + 1) // 2)
        for i, c in enumerate(seq):
            v = _BAM_CODES.get(c.upper(), 15)
            packed[i // 2] |= (v << 4) if i % 2 == 0 else v
        q = bytes(ord(c) - 33 for c in qual) if qual is not None else b"\xff" * n
        body = struct.pack("<iiBBHHHiiii", -1, -1, len(rn), 0, 4680, 0, 4 | (64 if False else 0), n, -1, -1, 0) + rn + bytes(packed) + q
        out.append(struct.pack("<i", len(body)) + body)
    return b"".join(out)


def parse_bam_strict(data):
    """The uncompressed BAM stream -> list of (name, seq, qual); FormatError when the header or a
    record is incomplete or inconsistent."""
    import struct

    if data[:4] != b"BAM\1":
        raise FormatError("BAM: bad magic")
    pos = 4
    try:
        (l_text,) = struct.unpack_from("<i", data, pos)
        pos += 4 + l_text
        (n_ref,) = struct.unpack_from("<i", data, pos)
        pos += 4
        for _ in range(n_ref):
            (l_name,) = struct.unpack_from("<i", data, pos)
            pos += 4 + l_name + 4
        if pos > len(data) or l_text < 0 or n_ref < 0:
            raise FormatError("BAM: header incomplete")
        recs = []
        while pos < len(data):
            (block,) = struct.unpack_from("<i", data, pos)
            if block < 32 or pos + 4 + block > len(data):
                raise FormatError("BAM: incomplete record at the end")
            l_name, = struct.unpack_from("<B", data, pos + 12)
            n_cigar, = struct.unpack_from("<H", data, pos + 16)
            l_seq, = struct.unpack_from("<i", data, pos + 20)
            p = pos + 36
            name = data[p : p + l_name - 1].decode("ascii")
            p += l_name + 4 * n_cigar
            packed = data[p : p + (l_seq + 1) // 2]
            p += (l_seq + 1) // 2
            q = data[p : p + l_seq]
            if p + l_seq > pos + 4 + block or l_seq < 0:
                raise FormatError("BAM: record fields exceed its block size")
            seq = "".join(_BAM_LETTERS[(packed[i // 2] >> 4) if i % 2 == 0 else (packed[i // 2] & 15)] for i in range(l_seq))
            qual = None if (l_seq and q[0] == 255) else "".join(chr(c + 33) for c in q)
            recs.append((name, seq, qual))
            pos += 4 + block
        return recs
    except (struct.error, UnicodeDecodeError) as e:
        raise FormatError(f"BAM: {e}")


def parse_fastq_strict(data):
    """
    The strict grammar dnaio accepts (probed, see DESIGN §5/C12): 4-line records, '@' and '+'
    lead characters, second header empty or equal to the first, len(seq) == len(qual),
    LF or CRLF, final newline optional, ASCII only, no blank lines.
    Returns list of (name, seq, qual); raises FormatError.
    """
    if not data:
        return []
    try:
        text = data.decode("ascii")
    except UnicodeDecodeError:
        raise FormatError("non-ASCII byte")
    lines = text.split("\n")
    if lines[-1] == "":
        lines.pop()
    else:
        pass  # final newline is optional
    lines = [ln[:-1] if ln.endswith("\r") else ln for ln in lines]
    if len(lines) % 4:
        raise FormatError(f"{len(lines)} lines is not a multiple of four")
    recs = []
    for i in range(0, len(lines), 4):
        h, s, p, q = lines[i : i + 4]
        if not h.startswith("@"):
            raise FormatError(f"line {i+1}: header does not start with '@'")
        if not p.startswith("+"):
            raise FormatError(f"line {i+3}: separator does not start with '+'")
        if len(p) > 1 and p[1:] != h[1:]:
            raise FormatError(f"line {i+3}: second header differs")
        if len(s) != len(q):
            raise FormatError(f"line {i+4}: sequence and quality lengths differ")
        recs.append((h[1:], s, q))
    return recs


def parse_fasta(data):
    """Lenient FASTA reader: list of (name, seq, None)."""
    if not data:
        return []
    text = data.decode("ascii", errors="replace")
    recs = []
    name = None
    seq = []
    for ln in text.split("\n"):
        ln = ln.rstrip("\r")
        if ln.startswith(">"):
            if name is not None:
                recs.append((name, "".join(seq), None))
            name = ln[1:]
            seq = []
        elif ln.startswith("#") and name is None:
            continue
        elif name is None:
            if ln.strip():
                raise FormatError("FASTA: sequence before first header")
        else:
            seq.append(ln.strip())
    if name is not None:
        recs.append((name, "".join(seq), None))
    return recs


def sniff(data):
    if not data:
        return None
    c = data[:1]
    if c == b"@":
        return "fastq"
    if c == b">":
        return "fasta"
    return "?"


def parse_records(path, data):
    """Decompress by name, sniff format by first byte, parse strictly.
    Returns (format or None when empty, records)."""
    plain = decompress(path, data)
    f = sniff(plain)
    if f is None:
        return None, []
    if f == "fastq":
        return f, parse_fastq_strict(plain)
    if f == "fasta":
        return f, parse_fasta(plain)
    raise FormatError(f"{path}: starts with {plain[:1]!r}")


def read_id(name):
    """The id part of a record name (up to first whitespace), without /1 /2 suffixes."""
    return name.split(None, 1)[0] if name.split() else ""
